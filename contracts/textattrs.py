"""Text components: attributes.py::TextAttributes._encode_text and the thin encode_title / encode_subline / encode_page_header /
encode_page_footer wrappers of services/encoding_service.py (C01 balance, C10 escaping at the re-wrap call site, C06 presence)."""
import z3
from z3 import And, Or, Not, Implies, ForAll, If, IntVal

from pyvc.contract import Contract
from pyvc.interp import LoopSpec
from pyvc import types as T
from pyvc.values import ListObj, RecObj, Ref, Opt, Rope, Tok, lit, to_z3, norm_str, StrSort, fresh_name, rope_of, rope_bal_low, rope_ascii
from pyvc.state import OutOfSubset
from pyvc.seqs import as_symlist, seq_view, safe_view
from pyvc.libmodels.strings import StrModel

from contracts.attributes import AT, ATTR_SORT, AttrVal

COMP = z3.Function("text_component_of_line", z3.IntSort(), z3.IntSort())          # line index -> component id
PLAIN = z3.Function("rtf_plain_run", z3.IntSort(), StrSort)                       # TextContent._as_rtf('plain') of component id
PARA = z3.Function("rtf_paragraph", z3.IntSort(), StrSort)                        # TextContent._as_rtf('paragraph') of component id


class CompModel:
    """Text components built in the line loop are integer ids (COMP(line)); their `_as_rtf` renderings are functions of the id."""
    assumed = []

    def call_method(self, I, st, recv, name, args, kwargs, node):
        if z3.is_expr(recv) and recv.sort() == z3.IntSort() and name == "_as_rtf":
            m = norm_str(kwargs.get("method", args[0] if args else None))
            if m == "plain":
                return PLAIN(recv)
            if m == "paragraph":
                return PARA(recv)
            raise OutOfSubset(f"line component rendered with method {m!r}")
        return NotImplemented


class EncodeText(Contract):
    """TextAttributes._encode_text(text, method): 'paragraph' gives one paragraph per line, in order; 'line' gives ONE
    paragraph whose content is the lines' *escaped* plain runs joined by \\line (the paragraph_format re-wrap receives only
    already-escaped runs: C10) and is brace balanced (C01); any other method raises ValueError.  Requires at least one line for
    'line' (callers check `text` first)."""
    target = "attributes.py::TextAttributes._encode_text"
    serves = ["C01", "C10", "C06"]
    models = [CompModel(), StrModel()]
    variants = ["paragraph", "line", "other"]
    raises = {"ValueError": lambda c, out: {"only_for_unknown_method": z3.BoolVal(c.variant == "other")}}

    def setup(self, c):
        cls = c.cls("rtflite.attributes", "TextAttributes")
        fields = {name: AttrVal(name) for name in ATTR_SORT if name.startswith("text_")}
        c.bind("self", c.alloc(RecObj("TextAttributes", fields, pyclass=cls, fresh=False, origin="CALLER")))
        text = c.param("text", T.List(T.Str))
        n = c.obj(text).length
        c.bind("method", c.variant if c.variant != "other" else "bogus")
        if c.variant == "line":
            c.requires("at_least_one_line", n >= 1)
        for name in ("text_font", "text_font_size", "text_justification", "text_indent_first", "text_indent_left", "text_indent_right",
                     "text_space", "text_space_before", "text_space_after", "text_convert", "text_hyphenation"):
            c.requires(f"{name}_set", Not(AT(name, 0, 0).isnone))
        k = z3.Int("k")
        from pyvc.values import m_bal, m_low, m_ascii
        # unit TextAsRtf: the plain / paragraph renderings of a component are balanced ASCII and contain its ESCAPED text
        c.requires("TextAsRtf.plain_and_paragraph_renderings_are_balanced_ascii",
                   ForAll([k], And(m_bal(PLAIN(k)) == 0, m_low(PLAIN(k)) >= 0, m_ascii(PLAIN(k)), m_bal(PARA(k)) == 0, m_low(PARA(k)) >= 0, m_ascii(PARA(k)))))
        c.v.update(n=n, text=text)

    @property
    def handlers(self):
        def new_bv(I, st, cv, args, kwargs, node):
            return st.alloc(RecObj("BroadcastValue", {"value": kwargs.get("value"), "dimension": kwargs.get("dimension")}, pyclass=cv.pyclass))

        def new_text(I, st, cv, args, kwargs, node):
            vv = self._v
            site = getattr(node, "lineno", None)
            t = norm_str(kwargs.get("text"))
            for fld in ("font", "size", "justification", "indent_first", "indent_left", "indent_right", "space", "space_before", "space_after",
                        "convert", "hyphenation"):
                val = kwargs.get(fld)
                if isinstance(val, Opt):
                    I.oblige(st, f"C01.TextContent.{fld}_not_none@L{site}", Not(val.isnone), "safety", site)
            rp = rope_of(t) if t is not None and not z3.is_expr(t) else None
            if rp is not None and any(isinstance(p, Tok) and p.tag == "JOIN" for p in rp.pieces):
                return st.alloc(RecObj("TextContent", dict(kwargs, _text=t), pyclass=cv.pyclass))          # the wrapper of the joined line
            # a line component: built from str(text[i]) of the current line
            i = I.lookup(st, "i")
            tn, tg = as_symlist(st, st.obj(vv["text"]))
            I.oblige(st, f"C02.component_of_line_i_carries_line_i@L{site}", to_z3(t) == to_z3(tg(to_z3(i))), "post", site)
            # C11: whether LaTeX conversion applies to line i is the component's own text_convert at row i (column 0)
            from contracts.attributes import same
            I.oblige(st, f"C11.line_i_converts_exactly_when_text_convert_at_row_i_says_so@L{site}", same(kwargs.get("convert"), AT("text_convert", to_z3(i), 0)), "post", site)
            return COMP(to_z3(i))
        return {"new:BroadcastValue": new_bv, "new:TextContent": new_text}

    @property
    def summaries(self):
        def iloc(I, st, args, kwargs, node):
            bv = st.obj(args[0])
            val = bv.fields["value"]
            if not isinstance(val, AttrVal) or val.name not in ATTR_SORT:
                raise OutOfSubset("BroadcastValue.iloc on a value that is not a declared text attribute")
            return AT(val.name, args[1], args[2])

        def as_rtf(I, st, args, kwargs, node):
            vv = self._v
            site = getattr(node, "lineno", None)
            owner = st.obj(args[0])
            m = norm_str(kwargs.get("method", args[1] if len(args) > 1 else None))
            t = owner.fields.get("_text")
            if m != "paragraph_format":
                raise OutOfSubset(f"wrapper rendered with method {m!r}")
            # unit TextAsRtf: paragraph_format re-wraps self.text VERBATIM, so self.text must already be escaped RTF: here it has to be
            # the \\line-join of the n components' plain runs, in line order
            rp = rope_of(t)
            j = rp.pieces[0] if len(rp.pieces) == 1 and isinstance(rp.pieces[0], Tok) and rp.pieces[0].tag == "JOIN" else None
            kk = z3.Int("kk")
            ok = z3.BoolVal(False)
            sep = j.fields.get("sep") if j is not None else None
            from pyvc.values import lit_bal_low
            # the separator is the code's own literal: any brace-balanced ASCII literal is acceptable (it is not user text)
            if isinstance(sep, str) and lit_bal_low(sep) == (0, 0) and all(ord(ch) < 128 for ch in sep):
                ok = And(to_z3(j.fields["length"]) == to_z3(vv["n"]),
                         ForAll([kk], Implies(And(0 <= kk, kk < to_z3(vv["n"])), to_z3(j.fields["get"](kk)) == PLAIN(COMP(kk)))))
            I.oblige(st, f"C10.rewrapped_text_is_the_escaped_runs_of_all_lines_joined_by_a_literal@L{site}", ok, "post", site)
            # lemma join_of_balanced_runs_is_balanced + TextAsRtf.paragraph_format: balanced template around a balanced text
            return Rope((Tok("PARFMT", owner=args[0], bal=IntVal(0), low=IntVal(0), ascii=z3.BoolVal(True), nonempty=True),))
        return {"BroadcastValue.iloc": iloc, "TextContent._as_rtf": as_rtf}

    def setup_loops(self, c):
        self._v = v = c.v
        n = v["n"]

        def inv(vv):
            comps = vv.obj(vv.text_components)
            ln, g = safe_view(vv.state, comps, IntVal(-1))
            k = z3.Int("k")
            return {"range": And(0 <= vv.i, vv.i <= n), "one_component_per_line_so_far": ln == vv.i,
                    "components_in_line_order": ForAll([k], Implies(And(0 <= k, k < vv.i), to_z3(g(k)) == COMP(k)))}
        self.loops = {0: LoopSpec(inv=inv, havoc={"text_components": T.List(T.Int)})}
        self.loops_optional = {1, 2}

    def ensures(self, c, out):
        n = c.v["n"]
        if c.variant == "paragraph":
            ln, g = seq_view(out.state, out.value)
            k = z3.Int("k")
            return {"one_paragraph_per_line_in_order": And(to_z3(ln) == n, ForAll([k], Implies(And(0 <= k, k < n), to_z3(g(k)) == PARA(COMP(k)))))}
        if c.variant == "line":
            r = out.value
            b, l = rope_bal_low(r)
            return {"C01.one_balanced_paragraph": And(b == 0, l >= 0), "C01.ascii": rope_ascii(r),
                    "C06.line_result_is_nonempty": z3.BoolVal(any(isinstance(p, Tok) and p.fields.get("nonempty") for p in rope_of(r).pieces))}
        return {"unknown_method_never_returns": z3.BoolVal(False)}


def join_lemma(index):
    """Join of balanced runs with a balanced separator is balanced (induction over the number of runs, by the homomorphism laws)."""
    B = z3.Function("jb", z3.IntSort(), z3.IntSort())
    L = z3.Function("jl", z3.IntSort(), z3.IntSort())
    eb = z3.Function("eb", z3.IntSort(), z3.IntSort())
    el = z3.Function("el", z3.IntSort(), z3.IntSort())
    sb, sl, k = z3.Ints("sb sl k")
    mn = lambda a, b: If(a <= b, a, b)
    defs = [B(0) == eb(0), L(0) == mn(0, el(0)),
            ForAll([k], Implies(k >= 0, And(B(k + 1) == B(k) + sb + eb(k + 1),
                                            L(k + 1) == mn(mn(L(k), B(k) + sl), B(k) + sb + el(k + 1))))),
            ForAll([k], And(eb(k) == 0, el(k) >= 0)), sb == 0, sl >= 0]
    goal = lambda x: And(B(x) == 0, L(x) >= 0)
    return [("base", defs, goal(0)), ("step", defs + [k >= 0, goal(k)], goal(k + 1))]


from pyvc.units import LemmaUnit
UNITS = [EncodeText()]
LEMMAS = [LemmaUnit("join_of_balanced_runs_is_balanced", join_lemma)]


# ---- encode_title / encode_subline / encode_page_header / encode_page_footer ------------------------------------------------------
def _wrapper_contract(fname, param, group_word):
    class _W(Contract):
        __doc__ = (f"RTFEncodingService.{fname}: '' exactly when there is no component or it has no text; otherwise the component's "
                   "_encode_text(text, method) result" + (f" inside one {{\\\\{group_word} ...}} group" if group_word else "") +
                   " - non-empty, brace balanced, ASCII (EncodeText's postcondition).")
        target = f"services/encoding_service.py::RTFEncodingService.{fname}"
        serves = ["C01", "C06", "C10"]
        models = [StrModel()]
        variants = ["no_component", "no_text", "empty_text", "text"]

        def setup(self, c):
            cls = c.cls("rtflite.services.encoding_service", "RTFEncodingService")
            c.bind("self", c.alloc(RecObj("RTFEncodingService", {}, pyclass=cls, fresh=False)))
            c.bind("method", "line")
            if c.variant == "no_component":
                c.bind(param, None)
                return
            if c.variant == "no_text":
                text = None
            else:
                text = c.fresh("text", T.List(T.Str))
                n = c.obj(text).length
                c.requires("text_shape", n == 0 if c.variant == "empty_text" else n >= 1)
            comp = c.alloc(RecObj("TextAttributes", {"text": text}, pyclass=c.cls("rtflite.attributes", "TextAttributes"), fresh=False, origin="CALLER"))
            c.bind(param, comp)
            c.v.update(text=text, comp=comp)
            c.ghost("encoded_with", None)

        @property
        def summaries(self):
            def enc(I, st, args, kwargs, node):
                site = getattr(node, "lineno", None)
                vv = self._v
                t = kwargs.get("text", args[1] if len(args) > 1 else None)
                m = norm_str(kwargs.get("method", args[2] if len(args) > 2 else None))
                I.oblige(st, f"C06.encodes_the_components_own_text@L{site}", z3.BoolVal(args[0] == vv["comp"] and t == vv["text"]), "post", site)
                I.oblige(st, f"C01.text_encoder_precondition_at_least_one_line@L{site}", st.obj(t).length >= 1 if isinstance(t, Ref) else z3.BoolVal(False), "post", site)
                I.oblige(st, f"C01.method_is_line_or_paragraph@L{site}", z3.BoolVal(m in ("line", "paragraph")), "post", site)
                return Rope((Tok("TEXTBLOCK", owner=args[0], bal=IntVal(0), low=IntVal(0), ascii=z3.BoolVal(True), nonempty=True),))
            return {"TextAttributes._encode_text": enc}

        def setup_loops(self, c):
            self._v = c.v

        def ensures(self, c, out):
            r = norm_str(out.value)
            if c.variant != "text":
                return {"no_text_no_output": z3.BoolVal(isinstance(r, str) and r == "")}
            rp = rope_of(r)
            b, l = rope_bal_low(r)
            cl = {"C06.component_with_text_yields_its_block_exactly_once": z3.BoolVal(sum(1 for p in rp.pieces if isinstance(p, Tok) and p.tag == "TEXTBLOCK") == 1),
                  "C01.balanced": And(b == 0, l >= 0), "C01.ascii": rope_ascii(r)}
            if group_word:
                first = rp.pieces[0] if isinstance(rp.pieces[0], str) else ""
                last = rp.pieces[-1] if isinstance(rp.pieces[-1], str) else ""
                cl[f"C06.inside_one_{group_word}_group"] = z3.BoolVal(first == "{\\" + group_word and last == "}")
            return cl
    _W.__name__ = "Encode" + "".join(w.capitalize() for w in fname.replace("encode_", "").split("_"))
    return _W


EncodeTitle = _wrapper_contract("encode_title", "title_config", None)
EncodeSubline = _wrapper_contract("encode_subline", "subline_config", None)
EncodePageHeader = _wrapper_contract("encode_page_header", "header_config", "header")
EncodePageFooter = _wrapper_contract("encode_page_footer", "footer_config", "footer")
UNITS += [EncodeTitle(), EncodeSubline(), EncodePageHeader(), EncodePageFooter()]
