"""encode.py::RTFDocument.__init__: default / broadcast / inherited col_rel_width (C08).

Objects reached through symbolic-length lists (section bodies, per-section header lists, headers) are allocated lazily per index.
A loop writes only the object it visits, every object is visited once, so each loop's effect is stated as a per-iteration
obligation on the visited object ("visited …" clauses, checked when the invariant is re-established at the end of the iteration);
after the section loop the body list is re-homed to the state those obligations establish (WPOST)."""
import z3
from z3 import And, Or, Not, Implies, ForAll, If, IntVal

from pyvc.contract import Contract
from pyvc.interp import LoopSpec
from pyvc import types as T
from pyvc.values import ListObj, RecObj, Ref, Opt, lit, to_z3, norm_str, fresh_name
from pyvc.state import OutOfSubset, lazy_alloc
from pyvc.seqs import as_symlist, safe_view, seq_view
from pyvc.libmodels.polars_model import PolarsModel, DfObj
from pyvc.libmodels.strings import StrModel
from pyvc.libmodels.pydantic_model import PydanticCopyModel


def _active(vv):
    st = vv._state
    idx = st.ghost.get("__iter_index__")
    return idx is not None and z3.is_expr(vv.i) and z3.simplify(vv.i - 1).eq(z3.simplify(to_z3(idx)))


class DocumentInit(Contract):
    """After construction, for every section s with ncols(s) columns: the body's col_rel_width is the user's list, except that an
    unset list becomes [1] * ncols(s) and a one-element list is repeated ncols(s) times; every configured header that had no
    col_rel_width of its own carries a copy of the col_rel_width of the body of ITS OWN section (single section: the body; nested
    per-section header lists: section s; flat header list of a multi-section document: section 0); a header with its own widths keeps
    them."""
    target = "encode.py::RTFDocument.__init__"
    serves = ["C08", "C14"]
    models = [PydanticCopyModel(), PolarsModel(), StrModel()]
    variants = ["single", "multi_nested", "multi_flat", "multi_no_headers", "no_df"]
    max_paths = 4000
    # C14: the constructor writes the document object itself and objects it created (copies of the components), never a component object
    # handed in by the caller (origin CALLER): every store into a non-fresh object other than `self` is a frame obligation
    frame = "strict"

    @property
    def modifies(self):
        return [lambda I, st, ref, o, what: ref == self._v["me"]]

    def setup(self, c):
        var = c.variant
        cls = c.cls("rtflite.encode", "RTFDocument")
        body_cls = c.cls("rtflite.input", "RTFBody")
        hdr_cls = c.cls("rtflite.input", "RTFColumnHeader")
        NS = z3.Int(fresh_name("n_sections"))
        NC = z3.Function(fresh_name("ncols"), z3.IntSort(), z3.IntSort())                     # columns of section s
        WNONE = z3.Function(fresh_name("body_width_unset"), z3.IntSort(), z3.BoolSort())
        WLEN = z3.Function(fresh_name("body_width_len"), z3.IntSort(), z3.IntSort())
        WVAL = z3.Function(fresh_name("body_width"), z3.IntSort(), z3.IntSort(), z3.RealSort())
        s_, j_ = z3.Ints("s j")
        c.requires("sections", And(NS >= 1, ForAll([s_], And(NC(s_) >= 1, WLEN(s_) >= 1))))
        rep = lambda s: And(Not(WNONE(s)), WLEN(s) == 1, NC(s) > 1)
        LP = lambda s: If(WNONE(s), NC(s), If(rep(s), NC(s), WLEN(s)))
        VP = lambda s, j: If(WNONE(s), z3.RealVal(1), If(rep(s), WVAL(s, 0), WVAL(s, j)))
        memo = {}

        def df_of(s):
            s = s if z3.is_expr(s) else IntVal(s)
            key = ("df", str(z3.simplify(s)))
            if key not in memo:
                C = z3.Function(fresh_name("cell"), z3.IntSort(), z3.IntSort(), z3.DeclareSort("Val") if False else z3.IntSort())
                from pyvc.values import ValSort, StrSort
                cellf = z3.Function(fresh_name("dfcell"), z3.IntSort(), z3.IntSort(), ValSort)
                namef = z3.Function(fresh_name("dfcol"), z3.IntSort(), StrSort)
                memo[key] = lazy_alloc(DfObj(z3.Int(fresh_name("nrows")), NC(s), lambda r, cc, cellf=cellf: cellf(to_z3(r), to_z3(cc)), lambda j, namef=namef: namef(to_z3(j))))
            return memo[key]

        def body_of(s, post=False):
            s = s if z3.is_expr(s) else IntVal(s)
            key = ("body", str(z3.simplify(s)), post)
            if key not in memo:
                if post:
                    w = lazy_alloc(ListObj(length=LP(s), get=lambda j, s=s: VP(s, to_z3(j)), fresh=False))
                    width = w
                else:
                    w = lazy_alloc(ListObj(length=WLEN(s), get=lambda j, s=s: WVAL(s, to_z3(j)), fresh=False))
                    width = Opt(WNONE(s), w)
                memo[key] = lazy_alloc(RecObj("RTFBody", {"col_rel_width": width, "_section": s}, pyclass=body_cls, fresh=False, origin="CALLER"))
            return memo[key]
        # headers: HNONE(s, h) entry is None; HWNONE(s, h): no own widths; HW*: own widths
        NH = z3.Function(fresh_name("n_headers"), z3.IntSort(), z3.IntSort())
        HNONE = z3.Function(fresh_name("header_is_none"), z3.IntSort(), z3.IntSort(), z3.BoolSort())
        HWNONE = z3.Function(fresh_name("header_width_unset"), z3.IntSort(), z3.IntSort(), z3.BoolSort())
        HWLEN = z3.Function(fresh_name("header_width_len"), z3.IntSort(), z3.IntSort(), z3.IntSort())
        HWVAL = z3.Function(fresh_name("header_width"), z3.IntSort(), z3.IntSort(), z3.IntSort(), z3.RealSort())
        c.requires("header_counts", ForAll([s_], NH(s_) >= 0))

        def header_of(s, h):
            s = s if z3.is_expr(s) else IntVal(s)
            h = h if z3.is_expr(h) else IntVal(h)
            key = ("hdr", str(z3.simplify(s)), str(z3.simplify(h)))
            if key not in memo:
                w = lazy_alloc(ListObj(length=HWLEN(s, h), get=lambda j, s=s, h=h: HWVAL(s, h, to_z3(j)), fresh=False))
                memo[key] = lazy_alloc(RecObj("RTFColumnHeader", {"col_rel_width": Opt(HWNONE(s, h), w), "_section": s, "_index": h}, pyclass=hdr_cls,
                                              fresh=False, origin="CALLER"))
            return memo[key]

        def header_list(s):
            s = s if z3.is_expr(s) else IntVal(s)
            key = ("hl", str(z3.simplify(s)))
            if key not in memo:
                memo[key] = lazy_alloc(ListObj(length=NH(s), get=lambda h, s=s: Opt(HNONE(s, to_z3(h)), header_of(s, h)), fresh=False))
            return memo[key]
        page = c.alloc(RecObj("RTFPage", {"width": c.fresh("page_width", T.Real), "col_width": c.fresh("col_width", T.Real)}, fresh=False))
        fields = {"rtf_page": page, "rtf_subline": None, "rtf_page_header": None, "rtf_page_footer": None, "_table_space": 0}
        if var == "no_df":
            fields.update(df=None, rtf_body=None, rtf_column_header=None)
        elif var == "single":
            fields.update(df=df_of(0), rtf_body=body_of(0),
                          rtf_column_header=c.alloc(ListObj(length=NH(0), get=lambda h: header_of(0, h), fresh=False)))
            c.requires("one_section", NS == 1)
        else:
            fields["df"] = c.alloc(ListObj(length=NS, get=lambda s: df_of(s), fresh=False))
            fields["rtf_body"] = c.alloc(ListObj(length=NS, get=lambda s: body_of(s), fresh=False))        # validator: same length as df
            if var == "multi_nested":
                fields["rtf_column_header"] = c.alloc(ListObj(length=NS, get=lambda s: header_list(s), fresh=False))   # validator: same length
            elif var == "multi_flat":
                fields["rtf_column_header"] = c.alloc(ListObj(length=NH(0), get=lambda h: header_of(0, h), fresh=False))
                c.requires("flat_header_list_nonempty", NH(0) >= 1)
            else:
                fields["rtf_column_header"] = None
        me = c.alloc(RecObj("RTFDocument", fields, pyclass=cls, fresh=False))
        c.bind("self", me)
        c.v.update(me=me, NS=NS, NC=NC, LP=LP, VP=VP, WNONE=WNONE, WLEN=WLEN, WVAL=WVAL, NH=NH, HNONE=HNONE, HWNONE=HWNONE, HWLEN=HWLEN, HWVAL=HWVAL,
                   body_of=body_of, header_of=header_of, memo=memo)

    @property
    def handlers(self):
        def super_init(I, st, args, kwargs, node):
            # pydantic's BaseModel.__init__ has populated and validated the fields (the state set up by this contract)
            return None
        super_init.raw = True
        return {"super().__init__": super_init}

    summaries = {"RTFDocument._apply_table_spacing": lambda I, st, args, kwargs, node: None}

    # ---- per-object specifications -------------------------------------------------------------------------------------------------
    def body_ok(self, st, body_ref, s):
        v = self._v
        w = st.obj(body_ref).fields["col_rel_width"]
        if isinstance(w, Opt):
            # untouched optional: allowed only when the user's list is kept as it is
            n, g = as_symlist(st, st.obj(w.payload))
            j = z3.Int("j")
            return And(Not(w.isnone), Not(v["WNONE"](s)), to_z3(n) == v["LP"](s), ForAll([j], Implies(And(0 <= j, j < to_z3(n)), to_z3(g(j)) == v["VP"](s, j))))
        if not isinstance(w, Ref):
            return z3.BoolVal(False)
        n, g = as_symlist(st, st.obj(w))
        j = z3.Int("j")
        return And(to_z3(n) == v["LP"](s), ForAll([j], Implies(And(0 <= j, j < to_z3(n)), to_z3(g(j)) == v["VP"](s, j))))

    def header_ok(self, st, hdr_ref, body_section):
        """header (s, h) after the visit: own widths kept, otherwise a copy of WPOST(body_section)."""
        v = self._v
        o = st.obj(hdr_ref)
        s, h = o.fields["_section"], o.fields["_index"]
        w = o.fields["col_rel_width"]
        j = z3.Int("j")
        had_own = Not(v["HWNONE"](s, h))
        if isinstance(w, Opt):
            n, g = as_symlist(st, st.obj(w.payload))
            return And(had_own, Not(w.isnone), to_z3(n) == v["HWLEN"](s, h))
        if not isinstance(w, Ref):
            return z3.BoolVal(False)
        n, g = as_symlist(st, st.obj(w))
        inherited = And(to_z3(n) == v["LP"](body_section), ForAll([j], Implies(And(0 <= j, j < to_z3(n)), to_z3(g(j)) == v["VP"](body_section, j))))
        own = And(to_z3(n) == v["HWLEN"](s, h), ForAll([j], Implies(And(0 <= j, j < to_z3(n)), to_z3(g(j)) == v["HWVAL"](s, h, j))))
        return If(had_own, own, inherited)

    def setup_loops(self, c):
        self._v = v = c.v
        var = c.variant
        noop = lambda I, st, name, ref: None
        NS, NH = v["NS"], v["NH"]

        def rehome_bodies(I, st, fin):
            # after the section loop every body is in the state the per-iteration obligation establishes (each visited once)
            me = st.obj(v["me"])
            lst = me.fields["rtf_body"]
            if isinstance(lst, Ref) and isinstance(st.obj(lst), ListObj):
                o = st.obj(lst)
                o.get = lambda s: v["body_of"](s, post=True)
                o.items, o.length = None, NS
            if isinstance(st.env.get("section_body"), Ref):
                st.env["section_body"] = v["body_of"](z3.simplify(NS - 1), post=True)      # the loop variable keeps the last body

        def inv_sections(vv):
            cl = {"range": And(0 <= vv.i, vv.i <= NS)}
            if _active(vv):
                st = vv._state
                b = st.env.get("section_body")
                if isinstance(b, Ref):
                    cl["C08.visited_section_body_has_its_default_or_broadcast_widths"] = self.body_ok(st, b, vv.i - 1)
                else:
                    cl["C08.visited_section_body_is_a_body"] = z3.BoolVal(False)
            return cl

        def inv_nested_outer(vv):
            return {"range": And(0 <= vv.i, vv.i <= NS)}

        def inv_headers(section_of):
            def inv(vv):
                st = vv._state
                cl = {"range": vv.i >= 0}
                if _active(vv):
                    h = st.env.get("header")
                    if isinstance(h, Opt):
                        h = h.payload
                    if isinstance(h, Ref):
                        o = st.obj(h)
                        sec = section_of(o)
                        ok = self.header_ok(st, h, sec)
                        isnone = v["HNONE"](o.fields["_section"], o.fields["_index"]) if var == "multi_nested" else z3.BoolVal(False)
                        cl["C08.visited_header_keeps_own_widths_or_inherits_its_own_sections"] = Or(isnone, ok)
                    else:
                        cl["C08.visited_header_is_a_header"] = z3.BoolVal(False)
                return cl
            return inv
        own_section = lambda o: o.fields["_section"]
        # loops in source order: 0 the comprehension of the local helper `_own` (a pure map: no specification), 1 sections, 2 nested outer,
        # 3 nested inner, 4 flat (multi), 5 single-section headers
        if var == "single":
            self.loops = {5: LoopSpec(inv=inv_headers(own_section), havoc={"header": noop})}
        elif var == "multi_nested":
            self.loops = {1: LoopSpec(inv=inv_sections, after=rehome_bodies, havoc={"section_body": noop, "section_df": noop}),
                          2: LoopSpec(inv=inv_nested_outer, havoc={"section_headers": noop, "section_body": noop, "header": noop}),
                          3: LoopSpec(inv=inv_headers(own_section), havoc={"header": noop})}
        elif var == "multi_flat":
            self.loops = {1: LoopSpec(inv=inv_sections, after=rehome_bodies, havoc={"section_body": noop, "section_df": noop}),
                          4: LoopSpec(inv=inv_headers(lambda o: IntVal(0)), havoc={"header": noop})}
        elif var == "multi_no_headers":
            self.loops = {1: LoopSpec(inv=inv_sections, after=rehome_bodies, havoc={"section_body": noop, "section_df": noop})}
        else:
            self.loops = {}
        self.loops_optional = {1, 2, 3, 4, 5}

    def ensures(self, c, out):
        v = c.v
        st = out.state
        cl = {"returns_none": z3.BoolVal(out.value is None)}
        if c.variant == "single":
            me = st.obj(v["me"])
            cl["C08.single_body_has_its_default_or_broadcast_widths"] = self.body_ok(st, me.fields["rtf_body"], IntVal(0))
        return cl


UNITS = [DocumentInit()]
