"""Column header carriers: services/encoding_service.py::RTFEncodingService.encode_column_header and
encoding/renderer.py::PageRenderer._render_column_headers (C08 header boundaries, C01 totality, C06 header rows)."""
import z3
from z3 import And, Or, Not, Implies, ForAll, If, IntVal

from pyvc.contract import Contract
from pyvc.interp import LoopSpec
from pyvc import types as T
from pyvc.values import ListObj, RecObj, Ref, Opt, lit, to_z3, norm_str, StrSort, ValSort, val_str, val_null, fresh_name
from pyvc.state import OutOfSubset
from pyvc.seqs import as_symlist, seq_view
from pyvc.libmodels.polars_model import PolarsModel, DfObj, fresh_df
from pyvc.libmodels.strings import StrModel

STRVAL = z3.Function("val_of_str", StrSort, ValSort)            # the data value a header label becomes in the one-row header frame
HDRROWS = z3.Function("rtf_header_rows", z3.IntSort(), z3.IntSort(), StrSort)       # (header frame uid, k) -> k-th chunk of its RTF
CW = z3.Function("col_widths_of", z3.IntSort(), z3.RealSort(), z3.IntSort(), z3.RealSort())      # (rel-width list id, total, j) -> boundary j


def h_one_row_frame(I, st, args, kwargs, node):
    """pl.DataFrame([row], schema=[...], orient="row"): a one-row frame whose cell (0, j) is row[j] (assumed polars contract)."""
    I.ctx.assume_lib("polars: pl.DataFrame([row], schema=names, orient='row') is the 1 x len(row) frame with cell (0, j) = row[j]")
    rows = st.obj(args[0])
    if not (isinstance(rows, ListObj) and rows.items is not None and len(rows.items) == 1):
        raise OutOfSubset("pl.DataFrame of something other than a one-row list")
    row = rows.items[0]
    n, g = as_symlist(st, st.obj(row))
    sch = kwargs.get("schema")
    if sch is not None:
        ns, _ = as_symlist(st, st.obj(sch))
        I.oblige(st, f"C01.header_frame_schema_matches_labels@L{getattr(node, 'lineno', None)}", to_z3(ns) == to_z3(n), "safety", getattr(node, "lineno", None))

    def cell(r, c, g=g):
        v = g(to_z3(c))
        v = norm_str(v)
        if isinstance(v, Opt):
            v = v.payload
        z = to_z3(v)
        return STRVAL(z) if z.sort() == StrSort else z
    d = DfObj(IntVal(1), n, cell, lambda j: z3.Const(fresh_name("hdrcol"), StrSort))
    return st.alloc(d)


class EncodeColumnHeader(Contract):
    """encode_column_header(df, rtf_attrs, page_col_width): None exactly when there is no header object or no header text;
    otherwise the header frame is encoded with boundaries Utils._col_widths(rel, page_col_width) where rel is the header's own
    col_rel_width (or equal shares), and **rel has exactly one entry per header cell** (so the last boundary is the table width,
    C08) - a precondition every caller must establish."""
    target = "services/encoding_service.py::RTFEncodingService.encode_column_header"
    serves = ["C08", "C01"]
    models = [PolarsModel(), StrModel()]
    variants = [f"{d}.{r}" for d in ("list", "frame", "none_text", "none_notext") for r in ("rel", "norel")] + ["no_attrs"]
    handlers = {"pl.DataFrame": h_one_row_frame}

    def setup(self, c):
        cls = c.cls("rtflite.services.encoding_service", "RTFEncodingService")
        c.bind("self", c.alloc(RecObj("RTFEncodingService", {}, pyclass=cls, fresh=False)))
        pcw = c.param("page_col_width", T.Real)
        c.requires("table_width_positive", pcw > 0)
        c.v.update(pcw=pcw, ncells=None, rel=None)
        if c.variant == "no_attrs":
            c.bind("df", None)
            c.bind("rtf_attrs", None)
            return
        dk, rk = c.variant.split(".")
        hcls = c.cls("rtflite.input", "RTFColumnHeader")
        text = None
        if dk == "list":
            df = c.fresh("labels", T.List(T.Str))
            ncells = c.obj(df).length
            c.bind("df", df)
        elif dk == "frame":
            df = fresh_df(c.st, "header_df")
            ncells = c.obj(df).w
            c.bind("df", df)
        else:
            c.bind("df", None)
            if dk == "none_text":
                text = c.fresh("text", T.List(T.Str))
                ncells = c.obj(text).length
            else:
                ncells = None
        rel = None
        if rk == "rel":
            rel = c.fresh("col_rel_width", T.List(T.Real))
            if ncells is not None:
                # the caller's obligation (see RenderColumnHeaders): one relative width per header cell
                c.requires("C08.one_relative_width_per_header_cell", c.obj(rel).length == ncells)
        attrs = c.alloc(RecObj("RTFColumnHeader", {"text": text, "col_rel_width": rel}, pyclass=hcls, fresh=False, origin="CALLER"))
        c.bind("rtf_attrs", attrs)
        c.v.update(ncells=ncells, rel=rel, attrs=attrs)
        c.ghost("encoded", z3.BoolVal(False))

    @property
    def summaries(self):
        def set_default(I, st, args, kwargs, node):
            I.ctx.assume_lib("RTFColumnHeader._set_default wraps scalar fields in one-element lists, leaves list fields (col_rel_width) alone and returns self")
            return args[0]

        def col_widths(I, st, args, kwargs, node):
            vv = self._v
            site = getattr(node, "lineno", None)
            rel, total = args[0], args[1]
            n, g = as_symlist(st, st.obj(rel))
            I.oblige(st, f"C08.header_boundaries_use_the_table_width@L{site}", to_z3(total) == to_z3(vv["pcw"]), "post", site)
            dim = I.lookup(st, "dim")
            ncells = dim[1] if isinstance(dim, tuple) else I.get_item(st, dim, 1, node)
            I.oblige(st, f"C08.one_relative_width_per_header_cell@L{site}", to_z3(n) == to_z3(ncells), "post", site)
            k = z3.Int("k")
            # Utils._col_widths requires positive relative widths (unit ColWidths); equal shares [1]*n satisfy it trivially
            rid = IntVal(rel.oid)
            st.ghost["__cw__"] = (rid, to_z3(total), to_z3(n))
            return st.alloc(ListObj(length=to_z3(n), get=lambda j, rid=rid, total=total: CW(rid, to_z3(total), to_z3(j)), fresh=True))

        def encode(I, st, args, kwargs, node):
            site = getattr(node, "lineno", None)
            attrs, df, cw = args[0], args[1], args[2]
            d = st.obj(df)
            n, g = as_symlist(st, st.obj(cw))
            I.oblige(st, f"C01.one_boundary_per_header_cell@L{site}", to_z3(n) >= to_z3(d.w), "post", site)     # _encode's precondition
            st.ghost["encoded"] = z3.BoolVal(True)
            st.ghost["__enc_uid__"] = IntVal(d.uid)
            return st.alloc(ListObj(length=to_z3(d.n), get=lambda k, d=d: HDRROWS(IntVal(d.uid), to_z3(k)), fresh=True))
        return {"TableAttributes._set_default": set_default, "RTFColumnHeader._set_default": set_default, "Utils._col_widths": col_widths,
                "TableAttributes._encode": encode}

    def setup_loops(self, c):
        self._v = c.v

    loops_optional = {0, 1}

    def ensures(self, c, out):
        v = out.value
        if c.variant == "no_attrs" or c.variant.startswith("none_notext"):
            return {"no_header_object_or_no_text_gives_None": z3.BoolVal(v is None)}
        done = And(out.state.ghost["encoded"], z3.BoolVal(isinstance(v, Ref)))
        if c.variant.startswith("none_text"):
            # an empty label list is "no text": None; otherwise the labels are encoded
            return {"header_rows_are_the_encoding_of_the_header_frame_unless_no_labels": If(to_z3(c.v["ncells"]) > 0, done, z3.BoolVal(v is None))}
        return {"header_rows_are_the_encoding_of_the_header_frame": done}


UNITS = [EncodeColumnHeader()]


# ---------------------------------------------------------------------------------------------------------------------------------
from pyvc.state import lazy_alloc
from contracts.processor import h_deepcopy

BTOP = z3.Function("header_border_top_after_update", z3.IntSort(), StrSort)


class RenderColumnHeaders(Contract):
    """PageRenderer._render_column_headers(document, page) for single-section documents: every configured header is handed to
    encode_column_header with the table width and with exactly one relative width per header cell (C08: header boundaries are the
    data boundaries when inherited, and the header's right edge is the table's); a header without text contributes no row and
    raises nothing (C01).  Domain (established by RTFDocument construction and the strategies, named as assumptions): the page
    carries the displayed columns' relative widths; a header's own labels are one per displayed column or one per own width."""
    target = "encoding/renderer.py::PageRenderer._render_column_headers"
    serves = ["C08", "C01", "C06"]
    models = [PolarsModel(), StrModel()]
    variants = ["flat", "single", "none"]
    handlers = {"pl.DataFrame": h_one_row_frame, "deepcopy": h_deepcopy}

    def setup(self, c):
        ren_cls = c.cls("rtflite.encoding.renderer", "PageRenderer")
        es_cls = c.cls("rtflite.services.encoding_service", "RTFEncodingService")
        body_cls = c.cls("rtflite.input", "RTFBody")
        hcls = c.cls("rtflite.input", "RTFColumnHeader")
        es = c.alloc(RecObj("RTFEncodingService", {}, pyclass=es_cls, fresh=False))
        c.bind("self", c.alloc(RecObj("PageRenderer", {"encoding_service": es}, pyclass=ren_cls, fresh=False)))
        page_df = fresh_df(c.st, "page_df")
        d = c.obj(page_df)
        shown_rel = c.fresh("displayed_rel_widths", T.List(T.Real))
        c.requires("page_carries_one_relative_width_per_displayed_column", c.obj(shown_rel).length == d.w)
        tattrs = c.alloc(RecObj("TableAttributes", {"col_rel_width": shown_rel}, pyclass=c.cls("rtflite.attributes", "TableAttributes"), fresh=False))
        page = c.alloc(RecObj("PageContext", {"data": page_df, "table_attrs": tattrs, "final_body_attrs": None, "col_widths": c.fresh("cw", T.List(T.Real)),
                                              "row_start": c.fresh("row_start", T.Int), "page_number": c.fresh("pn", T.Int),
                                              "total_pages": c.fresh("tp", T.Int), "is_first_page": c.fresh("is_first_page", T.Bool),
                                              "is_last_page": c.fresh("is_last_page", T.Bool), "needs_header": c.fresh("needs_header", T.Bool),
                                              "group_boundaries": None, "pageby_header_info": None, "subline_header": None}, fresh=False))
        body_rel = c.fresh("body_rel_widths", T.List(T.Real))
        body = c.alloc(RecObj("RTFBody", {"as_colheader": c.fresh("as_colheader", T.Bool), "col_rel_width": body_rel}, pyclass=body_cls, fresh=False))
        col_width = c.fresh("col_width", T.Real)
        c.requires("table_width_positive", col_width > 0)
        border_first = c.fresh("border_first", T.Str)
        rpage = c.alloc(RecObj("RTFPage", {"col_width": col_width, "border_first": border_first}, fresh=False))
        c.v.update(border_first=border_first, page_ref=None)
        nh = z3.Int(fresh_name("n_headers"))
        c.requires("header_count", nh >= 0)
        HN = z3.Function(fresh_name("header_is_none"), z3.IntSort(), z3.BoolSort())
        memo = {}

        def mk_header(k):
            k = k if z3.is_expr(k) else IntVal(k)
            key = str(z3.simplify(k))
            if key not in memo:
                tn = z3.Int(fresh_name("n_labels"))
                TX = z3.Function(fresh_name("label"), z3.IntSort(), StrSort)
                text = lazy_alloc(ListObj(length=tn, get=lambda j, TX=TX: TX(to_z3(j)), fresh=False))
                rn = z3.Int(fresh_name("n_rel"))
                RW = z3.Function(fresh_name("relw"), z3.IntSort(), z3.RealSort())
                rel = lazy_alloc(ListObj(length=rn, get=lambda j, RW=RW: RW(to_z3(j)), fresh=False))
                tnone = z3.Bool(fresh_name("text_is_none"))
                rnone = z3.Bool(fresh_name("rel_is_none"))
                rec = RecObj("RTFColumnHeader", {"text": Opt(tnone, text), "col_rel_width": Opt(rnone, rel),
                                                 "border_top": z3.Const(fresh_name("border_top"), StrSort)}, pyclass=hcls, fresh=False, origin="CALLER")
                ref = lazy_alloc(rec)
                memo[key] = (ref, tn, rn, tnone, rnone)
            return memo[key]
        c.v.update(memo=memo, mk_header=mk_header, d=d, col_width=col_width, shown_rel=shown_rel, nh=nh, HN=HN, body_rel=body_rel)
        if c.variant == "flat":
            hdrs = c.alloc(ListObj(length=nh, get=lambda k: Opt(HN(to_z3(k)), mk_header(k)[0]), fresh=False))
        elif c.variant == "single":
            hdrs = mk_header(0)[0]
            c.requires("header_domain", self.header_domain(c.st, hdrs, c.v))
        else:
            hdrs = None
        doc = c.alloc(RecObj("RTFDocument", {"rtf_column_header": hdrs, "rtf_body": body, "rtf_page": rpage, "df": fresh_df(c.st, "doc_df")}, fresh=False))
        c.bind("document", doc)
        c.bind("page", page)
        c.v.update(page_ref=page)

    def _v_page(self, st):
        return self._v["page_ref"]

    # domain facts about header k, assumed when the loop body meets it (RTFDocument.__init__ / user configuration)
    def header_domain(self, st, ref, v=None):
        v = v or self._v
        for key, (r, tn, rn, tnone, rnone) in v["memo"].items():
            if r.oid == ref.oid:
                w = v["d"].w
                return And(tn >= 0, rn >= 1,
                           # labels: one per displayed column, or one per own relative width
                           Implies(Not(tnone), Or(tn == w, And(Not(rnone), tn == rn))),
                           # after document construction a header always has relative widths: its own, or the body's (full table)
                           Not(rnone))
        return z3.BoolVal(True)

    @property
    def summaries(self):
        def update_row(I, st, args, kwargs, node):
            # unit UpdateRow: the broadcast value with row `args[1]` replaced by the list `args[2]`
            bv = st.obj(args[0])
            n, g = as_symlist(st, st.obj(args[2]))
            tok = BTOP(IntVal(args[0].oid))
            st.ghost["__btop__"] = {"token": tok, "row": args[1], "n": n, "g": g, "old": bv.fields.get("value"), "dim": bv.fields.get("dimension")}
            return tok

        def encode_header(I, st, args, kwargs, node):
            vv = self._v
            site = getattr(node, "lineno", None)
            text, attrs, width = args[1], args[2], args[3]
            a = st.obj(attrs)
            I.oblige(st, f"C08.header_is_laid_out_on_the_table_width@L{site}", to_z3(width) == to_z3(vv["col_width"]), "post", site)
            I.oblige(st, f"C14.header_handed_to_encoder_is_a_private_copy@L{site}", z3.BoolVal(bool(a.fresh)), "post", site)
            # number of header cells
            t = norm_str(text)
            none_cond = z3.BoolVal(False)
            if t is None:
                ncells, none_cond = None, z3.BoolVal(True)
            elif isinstance(t, Opt):
                none_cond = t.isnone
                n, _ = as_symlist(st, st.obj(t.payload))
                ncells = n
            elif isinstance(t, Ref) and isinstance(st.obj(t), DfObj):
                ncells = st.obj(t).w
            elif isinstance(t, Ref):
                ncells, _ = as_symlist(st, st.obj(t))
            else:
                raise OutOfSubset("header text of unexpected kind")
            rel = a.fields.get("col_rel_width")
            if ncells is not None:
                if isinstance(rel, Opt):
                    rn, _ = as_symlist(st, st.obj(rel.payload))
                    ok = Or(rel.isnone, to_z3(rn) == to_z3(ncells))
                elif rel is None:
                    ok = z3.BoolVal(True)
                else:
                    rn, _ = as_symlist(st, st.obj(rel))
                    ok = to_z3(rn) == to_z3(ncells)
                # EncodeColumnHeader's precondition: one relative width per header cell (else the header's right edge is not the table's)
                I.oblige(st, f"C08.header_has_one_relative_width_per_cell@L{site}", Implies(Not(none_cond), ok), "post", site)
            # C07: the first header row of the first page carries rtf_page.border_first on its top edge (all cells); every other header row
            # keeps its own border_top
            bt = a.fields.get("border_top")
            info = st.ghost.get("__btop__")
            idx_i = to_z3(st.ghost.get("__iter_index__", IntVal(0)))
            pagefirst = to_z3(st.obj(self._v_page(st)).fields["is_first_page"])
            bfirst = to_z3(self._v["border_first"])
            applies = And(pagefirst, idx_i == 0, bfirst != lit(""), Not(none_cond))
            if info is not None and z3.is_expr(bt) and bt.eq(info["token"]):
                kq = z3.Int("kq")
                cells = to_z3(ncells) if ncells is not None else IntVal(0)
                I.oblige(st, f"C07.page_border_first_goes_on_the_first_header_row_of_the_first_page_only@L{site}", applies, "post", site)
                I.oblige(st, f"C07.page_border_first_covers_every_cell_of_that_row@L{site}",
                         And(to_z3(info["row"]) == 0, to_z3(info["n"]) == cells,
                             ForAll([kq], Implies(And(0 <= kq, kq < cells), to_z3(norm_str(info["g"](kq))) == bfirst))), "post", site)
            else:
                I.oblige(st, f"C07.first_header_row_of_the_first_page_gets_page_border_first@L{site}", Not(applies), "post", site)
            # C03: a header row is rendered only for a header the row budget reserved a row for.  The reservation
            # (calculate_additional_rows_per_page, unit AdditionalRows) counts exactly the headers whose OWN text is set.
            orig = I.lookup(st, "header")
            if isinstance(orig, Opt):
                orig = orig.payload
            own_text_none = None
            for key, (r0, tn0, rn0, tnone0, rnone0) in vv["memo"].items():
                if isinstance(orig, Ref) and r0.oid == orig.oid:
                    own_text_none = tnone0
            rendered = z3.BoolVal(False) if ncells is None else (Not(none_cond) if (isinstance(t, Ref) and isinstance(st.obj(t), DfObj))
                                                                  else And(Not(none_cond), to_z3(ncells) > 0))
            auto = isinstance(t, Ref) and isinstance(st.obj(t), DfObj)        # text auto-populated from the page's column names
            I.oblige(st, f"C03.{'auto_populated_default_header_row' if auto else 'rendered_header_row'}_was_reserved_in_the_row_budget@L{site}",
                     Implies(rendered, Not(own_text_none)) if own_text_none is not None else z3.BoolVal(False), "post", site)
            # EncodeColumnHeader's postcondition: None exactly when there is no text (None or no labels)
            if ncells is None:
                return None
            rows = st.alloc(ListObj(length=z3.Int(fresh_name("n_header_rows")), get=lambda k: z3.Const(fresh_name("hrow"), StrSort), fresh=True))
            isnone = Or(none_cond, to_z3(ncells) == 0) if not (isinstance(t, Ref) and isinstance(st.obj(t), DfObj)) else z3.BoolVal(False)
            return Opt(isnone, rows)

        def new_bv(I, st, cv, args, kwargs, node):
            return st.alloc(RecObj("BroadcastValue", {"value": kwargs.get("value"), "dimension": kwargs.get("dimension")}, pyclass=cv.pyclass))
        self._new_bv = new_bv
        return {"BroadcastValue.update_row": update_row, "RTFEncodingService.encode_column_header": encode_header}

    def setup_loops(self, c):
        self._v = v = c.v
        self.handlers = dict(type(self).handlers)
        self.handlers["new:BroadcastValue"] = lambda I, st, cv, args, kwargs, node: st.alloc(
            RecObj("BroadcastValue", {"value": kwargs.get("value"), "dimension": kwargs.get("dimension")}, pyclass=cv.pyclass))

        def inv(vv):
            return {"range": And(0 <= vv.i, vv.i <= v["nh"])} if c.variant == "flat" else {"trivial": z3.BoolVal(True)}

        def before_iter(I, st, i):
            # the domain facts of the header met in this iteration
            h = st.env.get("header")
            if isinstance(h, Opt):
                h = h.payload
            if isinstance(h, Ref):
                st.assume(self.header_domain(st, h))
        self.loops = {c.v.get("loop_ord", 1): LoopSpec(inv=inv, ghost_iter=before_iter, havoc={"header_elements": T.List(T.Str)})}

    def ensures(self, c, out):
        return {"returns_a_list_of_row_chunks": z3.BoolVal(isinstance(out.value, Ref))}


UNITS.append(RenderColumnHeaders())


# ---------------------------------------------------------------------------------------------------------------------------------
from pyvc.values import DictObj, Rope, Tok, rope_of, rope_bal_low, rope_ascii


class SublineHeader(Contract):
    """PageRenderer._generate_subline_header(info): '' when the group has no displayable value, otherwise ONE paragraph group
    `{\\pard … {\\f0 <escaped heading>}\\par}` - brace balanced, ASCII (C01) - whose text went through the character escaping
    (C10) and is the page's group values joined by ', ' (C05)."""
    target = "encoding/renderer.py::PageRenderer._generate_subline_header"
    serves = ["C01", "C10", "C05"]
    models = [StrModel()]
    variants = ["one_level", "two_levels", "no_group_values"]

    def setup(self, c):
        ren_cls = c.cls("rtflite.encoding.renderer", "PageRenderer")
        c.bind("self", c.alloc(RecObj("PageRenderer", {}, pyclass=ren_cls, fresh=False)))
        if c.variant == "no_group_values":
            c.bind("info", c.alloc(DictObj(items={"header_text": lit("")}, fresh=False)))
            return
        n = 1 if c.variant == "one_level" else 2
        vals = {f"s{k}": Opt(z3.Bool(fresh_name(f"v{k}_none")), z3.Const(fresh_name(f"v{k}"), ValSort)) for k in range(n)}
        gv = c.alloc(DictObj(items=vals, fresh=False))
        c.bind("info", c.alloc(DictObj(items={"group_values": gv}, fresh=False)))
        c.v.update(vals=vals)
        c.ghost("escaped_calls", IntVal(0))

    @property
    def handlers(self):
        def new_text(I, st, cv, args, kwargs, node):
            site = getattr(node, "lineno", None)
            I.oblige(st, f"C11.heading_is_not_latex_converted@L{site}", z3.BoolVal(kwargs.get("convert") is False), "post", site)
            return st.alloc(RecObj("TextContent", dict(kwargs), pyclass=cv.pyclass))
        return {"new:TextContent": new_text}

    @property
    def summaries(self):
        def s_convert(I, st, args, kwargs, node):
            # TextContent._convert_special_chars (unit ConvertSpecialChars): ASCII, balanced, decodes to the text it was given
            st.ghost["escaped_calls"] = st.ghost.get("escaped_calls", IntVal(0)) + 1
            st.ghost["__escaped_of__"] = st.obj(args[0]).fields.get("text")
            return Rope((Tok("ESCAPED", owner=args[0], bal=IntVal(0), low=IntVal(0), ascii=z3.BoolVal(True)),))
        return {"TextContent._convert_special_chars": s_convert}

    def ensures(self, c, out):
        r = out.value
        if c.variant == "no_group_values":
            return {"no_group_values_no_heading": z3.BoolVal(isinstance(norm_str(r), str) and norm_str(r) == "")}
        rp = rope_of(r)
        ps = rp.pieces
        if len(ps) == 0 or (len(ps) == 1 and isinstance(ps[0], str) and ps[0] == ""):
            # '' is returned on the path where the joined group text is empty (the path condition says so): nothing to prove about ''
            return {}
        b, l = rope_bal_low(r)
        tags = [p.tag if isinstance(p, Tok) else ("RAW" if z3.is_expr(p) else "lit") for p in ps]
        first = ps[0] if isinstance(ps[0], str) else ""
        last = ps[-1] if isinstance(ps[-1], str) else ""
        return {"C01.one_balanced_paragraph_group": And(b == 0, l >= 0),
                "C01.ascii": rope_ascii(r),
                "C01.opens_and_closes_as_a_paragraph_group": z3.BoolVal(first.startswith("{\\pard") and last.endswith("\\par}")),
                "C10.heading_text_is_escaped_exactly_once_and_never_raw": z3.BoolVal(tags.count("ESCAPED") == 1 and tags.count("RAW") == 0)}


UNITS.append(SublineHeader())
