"""Contracts for services/grouping_service.py (DESIGN A18): C13."""
import z3
from z3 import And, Or, Not, Implies, ForAll, Exists, If, IntVal

from pyvc.contract import Contract
from pyvc.interp import LoopSpec
from pyvc import types as T
from pyvc.values import RecObj, ListObj, Ref, Opt, StrSort, ValSort, lit, norm_str, to_z3, val_null, fresh_name
from pyvc.libmodels.polars_model import PolarsModel, DfObj, fresh_df
from pyvc.libmodels.polars_expr import ExprModel, HANDLERS, COLIDX, NULLV
from pyvc.libmodels.strings import StrModel
from pyvc.seqs import seq_view


def same_key(a, b):
    """Group-key equality with null as a value: null == null, null != non-null."""
    return Or(And(val_null(a), val_null(b)), And(Not(val_null(a)), Not(val_null(b)), a == b))


def _svc(c):
    cls = c.cls("rtflite.services.grouping_service", "GroupingService")
    return c.alloc(RecObj("GroupingService", {}, pyclass=cls, fresh=False))


class SuppressSingle(Contract):
    """_suppress_single_column: a cell is blanked exactly when its value (null as a value) equals the previous row's; other
    columns and the shown cells are unchanged."""
    target = "services/grouping_service.py::GroupingService._suppress_single_column"
    serves = ["C13"]
    models = [ExprModel(), PolarsModel(), StrModel()]
    handlers = HANDLERS

    def setup(self, c):
        c.bind("self", _svc(c))
        df = fresh_df(c.st, "df")
        c.bind("df", df)
        col = c.param("column", T.Str)
        d = c.obj(df)
        c.requires("column_exists", And(COLIDX(col) >= 0, COLIDX(col) < d.w))
        c.v.update(d=d, cell0=d.cell)

    def ensures(self, c, out):
        d, cell0, col = c.v["d"], c.v["cell0"], c.v["column"]
        res = out.state.obj(out.value)
        i, k = z3.Ints("i k")
        g = COLIDX(col)
        shown = Or(i == 0, Not(same_key(cell0(i, g), cell0(i - 1, g))))
        inr = And(0 <= i, i < d.n)
        return {"same_shape": And(res.n == d.n, res.w == d.w),
                "shown_cells_keep_their_value": ForAll([i], Implies(And(inr, shown), res.cell(i, g) == cell0(i, g))),
                "true_repeats_are_blanked": ForAll([i], Implies(And(inr, Not(shown)), val_null(res.cell(i, g)))),
                "other_columns_untouched": ForAll([i, k], Implies(And(inr, 0 <= k, k < d.w, k != g), res.cell(i, k) == cell0(i, k)))}


class SuppressHierarchical(Contract):
    """_suppress_hierarchical_columns: level l is blanked exactly when the hierarchical key up to l equals the previous row's."""
    target = "services/grouping_service.py::GroupingService._suppress_hierarchical_columns"
    serves = ["C13"]
    models = [ExprModel(), PolarsModel(), StrModel()]
    handlers = HANDLERS
    variants = ["levels2", "levels3"]

    def setup(self, c):
        M = int(c.variant[-1])
        cols = [f"g{l}" for l in range(M)]
        c.bind("self", _svc(c))
        df = fresh_df(c.st, "df")
        c.bind("df", df)
        c.bind("group_by", c.alloc(ListObj(items=list(cols), fresh=False)))
        d = c.obj(df)
        for a in range(M):
            c.requires(f"column_{cols[a]}_exists", And(COLIDX(lit(cols[a])) >= 0, COLIDX(lit(cols[a])) < d.w))
            for b in range(a + 1, M):
                c.requires(f"columns_{a}_{b}_distinct", COLIDX(lit(cols[a])) != COLIDX(lit(cols[b])))
        c.v.update(d=d, cell0=d.cell, cols=cols, M=M)

    def ensures(self, c, out):
        d, cell0, cols, M = c.v["d"], c.v["cell0"], c.v["cols"], c.v["M"]
        res = out.state.obj(out.value)
        i, k = z3.Ints("i k")
        inr = And(0 <= i, i < d.n)
        cl = {"same_shape": And(res.n == d.n, res.w == d.w)}
        idx = [COLIDX(lit(x)) for x in cols]
        for l in range(M):
            shown = Or(i == 0, *[Not(same_key(cell0(i, idx[l2]), cell0(i - 1, idx[l2]))) for l2 in range(l + 1)])
            cl[f"level{l}_shown_cells_keep_their_value"] = ForAll([i], Implies(And(inr, shown), res.cell(i, idx[l]) == cell0(i, idx[l])))
            cl[f"level{l}_true_repeats_are_blanked"] = ForAll([i], Implies(And(inr, Not(shown)), val_null(res.cell(i, idx[l]))))
        cl["other_columns_untouched"] = ForAll([i, k], Implies(And(inr, 0 <= k, k < d.w, *[k != x for x in idx]), res.cell(i, k) == cell0(i, k)))
        return cl


class RestorePageContext(Contract):
    """restore_page_context: group cells of every page's first row get their original value back; everything else is the
    suppressed frame (whole-view postcondition)."""
    target = "services/grouping_service.py::GroupingService.restore_page_context"
    serves = ["C13"]
    models = [ExprModel(), PolarsModel(), StrModel()]
    handlers = HANDLERS
    variants = ["levels1", "levels2"]

    def setup(self, c):
        M = int(c.variant[-1])
        cols = [f"g{l}" for l in range(M)]
        c.bind("self", _svc(c))
        sup = fresh_df(c.st, "suppressed_df")
        c.bind("suppressed_df", sup)
        ds = c.obj(sup)
        orig = fresh_df(c.st, "original_df", width=ds.w)
        c.bind("original_df", orig)
        do = c.obj(orig)
        c.requires("same_height", do.n == ds.n)
        c.bind("group_by", c.alloc(ListObj(items=list(cols), fresh=False)))
        starts = c.param("page_start_indices", T.List(T.Int))
        so = c.obj(starts)
        k = z3.Int("k")
        c.requires("page_starts_are_row_indices", ForAll([k], Implies(And(0 <= k, k < so.length), so.get(k) >= 0)))
        for a in range(M):
            c.requires(f"column_{cols[a]}_exists", And(COLIDX(lit(cols[a])) >= 0, COLIDX(lit(cols[a])) < ds.w))
            for b in range(a + 1, M):
                c.requires(f"columns_{a}_{b}_distinct", COLIDX(lit(cols[a])) != COLIDX(lit(cols[b])))
        c.v.update(ds=ds, do=do, cols=cols, M=M, so=so, sup=sup)

    def spec_cell(self, c, upto):
        ds, do, cols, so = c.v["ds"], c.v["do"], c.v["cols"], c.v["so"]
        idx = [COLIDX(lit(x)) for x in cols]

        def cell(r, col):
            t = z3.Int(fresh_name("t"))
            is_start = Exists([t], And(0 <= t, t < upto, so.get(t) == r))
            is_group_col = Or(*[col == x for x in idx])
            return If(And(is_start, is_group_col, r < do.n), do.cell(r, col), ds.cell(r, col))
        return cell

    def setup_loops(self, c):
        ds = c.v["ds"]

        def inv(vv):
            res = vv.state.obj(vv.result_df)
            r, col = z3.Ints("r col")
            spec = self.spec_cell(c, vv.i)
            return {"shape": And(res.n == ds.n, res.w == ds.w),
                    "restored_so_far": ForAll([r, col], Implies(And(0 <= r, r < ds.n, 0 <= col, col < ds.w), res.cell(r, col) == spec(r, col)))}

        def havoc_df(I, st, name, cur):
            C = z3.Function(fresh_name("restored.cell"), z3.IntSort(), z3.IntSort(), ValSort)
            o = st.obj(cur)
            nd = DfObj(z3.Int(fresh_name("restored.n")), z3.Int(fresh_name("restored.w")), lambda r, cc, C=C: C(to_z3(r), to_z3(cc)), o.colname)
            return st.alloc(nd)
        self.loops = {0: LoopSpec(inv=inv, havoc={"result_df": havoc_df})}

    def ensures(self, c, out):
        ds, so = c.v["ds"], c.v["so"]
        res = out.state.obj(out.value)
        r, col = z3.Ints("r col")
        spec = self.spec_cell(c, so.length)
        return {"shape": And(res.n == ds.n, res.w == ds.w),
                "page_first_rows_restored_everything_else_suppressed": ForAll([r, col], Implies(And(0 <= r, r < ds.n, 0 <= col, col < ds.w),
                                                                                                 res.cell(r, col) == spec(r, col)))}


UNITS = [SuppressSingle(), SuppressHierarchical(), RestorePageContext()]


# =====================================================================================================================
SEENF = None


def norm_val(x):
    """Python value of a cell (None for null) as a single Val term (null is the unique NULLV)."""
    if isinstance(x, Opt):
        return If(x.isnone, NULLV, x.payload)
    if x is None:
        return NULLV
    return to_z3(x)


class ValidateSortingLevel0(Contract):
    """validate_data_sorting for one grouping column: returns normally iff every run start is a value not seen before (equal keys
    contiguous); otherwise raises ValueError - before anything is rendered (C13, the one allowed refusal of C01)."""
    target = "services/grouping_service.py::GroupingService.validate_data_sorting"
    serves = ["C13", "C01"]
    models = [ExprModel(), PolarsModel(), StrModel()]
    handlers = HANDLERS

    def setup(self, c):
        c.bind("self", _svc(c))
        df = fresh_df(c.st, "df")
        c.bind("df", df)
        c.bind("group_by", c.alloc(ListObj(items=["g0"], fresh=False)))
        c.bind("page_by", None)
        c.bind("subline_by", None)
        d = c.obj(df)
        g = COLIDX(lit("g0"))
        j = z3.Int("cj")
        c.requires("column_exists", And(g >= 0, g < d.w, d.colname(g) == lit("g0")))
        c.v.update(d=d, g=g, val=lambda k: d.cell(k, g))

    def fresh_starts(self, c, upto):
        val = c.v["val"]
        j, k = z3.Ints("vj vk")
        return ForAll([j], Implies(And(1 <= j, j < upto, val(j) != val(j - 1)), ForAll([k], Implies(And(0 <= k, k < j), val(k) != val(j)))))

    def setup_loops(self, c):
        d, val = c.v["d"], c.v["val"]

        def inv(vv):
            idx = vv.i + 1
            seen = vv.state.obj(vv.seen_values)
            x = z3.Const("sx", ValSort)
            k = z3.Int("sk")
            mem = (lambda t: seen.member(Opt(val_null(t), t))) if seen.items is None else (lambda t: Or(*[norm_val(it) == t for it in seen.items]))
            return {"index": And(idx >= 1, idx <= d.n),
                    "current_value_is_previous_row": And(norm_val(vv.current_value) == val(idx - 1),
                                                          vv.current_value.isnone == val_null(vv.current_value.payload)
                                                          if isinstance(vv.current_value, Opt) else z3.BoolVal(True)),
                    "seen_is_the_set_of_values_so_far": ForAll([x], mem(x) == Exists([k], And(0 <= k, k < idx, val(k) == x))),
                    "every_run_start_so_far_was_fresh": self.fresh_starts(c, idx)}

        def havoc_set(I, st, name, ref):
            from pyvc.values import SetObj
            F = z3.Function(fresh_name("seen"), ValSort, z3.BoolSort())
            o = st.obj(ref)
            o.items, o.member = None, (lambda t, F=F: F(norm_val(t)))
        self.loops = {3: LoopSpec(inv=inv, havoc={"seen_values": havoc_set, "current_value": T.Option(T.Val)})}
        self.loops_optional = {3}

    @property
    def raises(self):
        def r(c, out):
            d, val = c.v["d"], c.v["val"]
            j, k = z3.Ints("rj rk")
            return {"only_when_equal_keys_are_not_contiguous": Exists([j, k], And(1 <= j, j < d.n, 0 <= k, k < j, val(j) != val(j - 1), val(k) == val(j)))}
        return {"ValueError": r}

    def ensures(self, c, out):
        d = c.v["d"]
        return {"returns_only_if_every_run_start_is_fresh": self.fresh_starts(c, d.n)}


def contiguity_lemma(index):
    """'every run start is fresh'  ==>  equal keys are contiguous: v[a]==v[b], a<b  =>  v[c]==v[a] for a<=c<=b.  Induction on b-a is
    replaced by the direct argument: take the largest run start s <= b; v[s]==v[b]; if s > a then v[a]==v[s] contradicts freshness."""
    v = z3.Function("v", z3.IntSort(), ValSort)
    s = z3.Function("run_start", z3.IntSort(), z3.IntSort())       # witness: start of the run containing position b
    n, a, b, cc, j, k = z3.Ints("n a b c j k")
    fresh = ForAll([j], Implies(And(1 <= j, j < n, v(j) != v(j - 1)), ForAll([k], Implies(And(0 <= k, k < j), v(k) != v(j)))))
    runs = [ForAll([b], Implies(And(0 <= b, b < n), And(0 <= s(b), s(b) <= b, Or(s(b) == 0, v(s(b)) != v(s(b) - 1))))),
            ForAll([b, cc], Implies(And(0 <= b, b < n, s(b) <= cc, cc <= b), v(cc) == v(b)))]
    return [("fresh_run_starts_imply_contiguity", [fresh] + runs + [0 <= a, a < b, b < n, v(a) == v(b), a <= cc, cc <= b], v(cc) == v(a))]


UNITS.append(ValidateSortingLevel0())


class ValidateSortingTwoLevels(Contract):
    """validate_data_sorting for two grouping columns: returns normally iff the first column's values AND the composite
    (first, second) keys (null as a value) each have only fresh run starts; otherwise ValueError.
    Precondition (injectivity of the code's string key): the key built by casting to string, replacing null by '__NULL__' and joining
    with '|' distinguishes different (first, second) pairs - i.e. no value contains '|', none prints as '__NULL__', and the string cast is
    injective on each column's values.  Outside it the real function can refuse contiguous data (e.g. ('a|b','c') and ('a','b|c'))."""
    target = "services/grouping_service.py::GroupingService.validate_data_sorting"
    serves = ["C13", "C01"]
    models = [ExprModel(), PolarsModel(), StrModel()]

    @property
    def handlers(self):
        h = dict(HANDLERS)

        def row_named(I, st, args, kwargs, node):
            # df.row(j, named=True) is only used to word the error message
            from pyvc.values import DictObj
            return st.alloc(DictObj(items={"g0": z3.Const(fresh_name("rv"), ValSort), "g1": z3.Const(fresh_name("rv"), ValSort)}, fresh=True))
        h["df.row"] = row_named
        return h

    def setup(self, c):
        from pyvc.libmodels.polars_expr import keycat
        c.bind("self", _svc(c))
        df = fresh_df(c.st, "df")
        c.bind("df", df)
        c.bind("group_by", c.alloc(ListObj(items=["g0", "g1"], fresh=False)))
        c.bind("page_by", None)
        c.bind("subline_by", None)
        d = c.obj(df)
        g0, g1 = COLIDX(lit("g0")), COLIDX(lit("g1"))
        c.requires("columns_exist", And(g0 >= 0, g0 < d.w, d.colname(g0) == lit("g0"), g1 >= 0, g1 < d.w, d.colname(g1) == lit("g1"), g0 != g1))
        K = keycat(2)
        a0, a1, b0, b1 = (z3.Const(n, ValSort) for n in ("ka0", "ka1", "kb0", "kb1"))
        nv = lambda x: If(val_null(x), NULLV, x)
        # NOT used by the proof obligations (they speak about the code's key itself); it is what makes "equal keys" mean "equal pairs":
        c.v["injectivity_assumption"] = ForAll([a0, a1, b0, b1], (K(nv(a0), nv(a1)) == K(nv(b0), nv(b1))) == And(same_key(a0, b0), same_key(a1, b1)))
        c.ctx.assume_lib("composite group key (cast to string, '__NULL__' for null, joined by '|') is injective on the pairs of values: no value contains "
                         "'|' or prints as '__NULL__' (stated precondition of ValidateSortingTwoLevels; not used in its obligations)")
        c.requires("composite_key_is_never_null", ForAll([a0, a1], Not(val_null(K(a0, a1)))))
        key = lambda k: K(nv(d.cell(k, g0)), nv(d.cell(k, g1)))
        c.v.update(d=d, val0=lambda k: d.cell(k, g0), key=key)

    def fresh_starts(self, f, upto):
        j, k = z3.Ints("vj vk")
        return ForAll([j], Implies(And(1 <= j, j < upto, f(j) != f(j - 1)), ForAll([k], Implies(And(0 <= k, k < j), f(k) != f(j)))))

    def setup_loops(self, c):
        d = c.v["d"]

        def mk_inv(f, cur_name, seen_name):
            def inv(vv):
                idx = vv.i + 1
                seen = vv.state.obj(getattr(vv, seen_name))
                cur = getattr(vv, cur_name)
                x = z3.Const("sx", ValSort)
                k = z3.Int("sk")
                mem = (lambda t: seen.member(Opt(val_null(t), t))) if seen.items is None else (lambda t: Or(*[norm_val(it) == t for it in seen.items]))
                return {"index": And(idx >= 1, idx <= d.n),
                        "current_is_previous_row": And(norm_val(cur) == f(idx - 1),
                                                       cur.isnone == val_null(cur.payload) if isinstance(cur, Opt) else z3.BoolVal(True)),
                        "seen_is_the_set_so_far": ForAll([x], mem(x) == Exists([k], And(0 <= k, k < idx, f(k) == x))),
                        "every_run_start_so_far_was_fresh": self.fresh_starts(f, idx)}
            return inv

        def havoc_set(I, st, name, ref):
            F = z3.Function(fresh_name("seen"), ValSort, z3.BoolSort())
            o = st.obj(ref)
            o.items, o.member = None, (lambda t, F=F: F(norm_val(t)))
        self.loops = {3: LoopSpec(inv=mk_inv(c.v["val0"], "current_value", "seen_values"), havoc={"seen_values": havoc_set, "current_value": T.Option(T.Val)}),
                      6: LoopSpec(inv=mk_inv(c.v["key"], "current_key", "seen_keys"), havoc={"seen_keys": havoc_set, "current_key": T.Option(T.Val)})}
        self.loops_optional = {3, 6}

    @property
    def raises(self):
        def r(c, out):
            d, v0, key = c.v["d"], c.v["val0"], c.v["key"]
            j, k = z3.Ints("rj rk")
            bad = lambda f: Exists([j, k], And(1 <= j, j < d.n, 0 <= k, k < j, f(j) != f(j - 1), f(k) == f(j)))
            return {"only_when_a_level_is_not_contiguous": Or(bad(v0), bad(key))}
        return {"ValueError": r}

    def ensures(self, c, out):
        d = c.v["d"]
        return {"returns_only_if_both_levels_have_fresh_run_starts": And(self.fresh_starts(c.v["val0"], d.n), self.fresh_starts(c.v["key"], d.n))}


UNITS.append(ValidateSortingTwoLevels())
from pyvc.units import LemmaUnit
LEMMAS = [LemmaUnit("contiguity", contiguity_lemma)]


# ---- GroupingService.enhance_group_by: the dispatcher between the contracts above ---------------------------------------------------
from pyvc.values import ClassVal
from pyvc.state import SymRaise

SORT_OK = z3.Bool("group_keys_are_contiguous")          # ValidateSorting*'s verdict for (df, group_by)


class EnhanceGroupBy(Contract):
    """enhance_group_by(df, group_by): without keys (or without rows) the frame itself; otherwise - after every key was found among the
    columns and validate_data_sorting(df, group_by=group_by) accepted the order - the result of the suppressor for that many keys applied to
    a value-equal copy of df with exactly these keys (one key: _suppress_single_column(copy, group_by[0]); more: _suppress_hierarchical_columns
    (copy, group_by)).  ValueError only for a key that is no column or for keys that are not contiguous (C13: true repeats only)."""
    target = "services/grouping_service.py::GroupingService.enhance_group_by"
    serves = ["C13"]
    models = [PolarsModel(), StrModel()]
    variants = ["no_keys", "empty_key_list", "one_key", "two_keys", "three_keys"]

    def setup(self, c):
        c.bind("self", _svc(c))
        df = fresh_df(c.st, "df")
        c.bind("df", df)
        n = {"no_keys": None, "empty_key_list": 0, "one_key": 1, "two_keys": 2, "three_keys": 3}[c.variant]
        keys = [c.fresh(f"key{j}", T.Str) for j in range(n or 0)]
        gb = None if n is None else c.alloc(ListObj(items=list(keys), fresh=False))
        c.bind("group_by", gb)
        c.v.update(df=df, d=c.obj(df), gb=gb, keys=keys, n=n)
        c.ghost("trace", ())

    def _is_df(self, st, x, vv):
        return isinstance(x, Ref) and x.oid == vv["df"].oid          # clone() is value-equal (PolarsModel): the copy is the same frame value

    @property
    def summaries(self):
        def validate(I, st, args, kwargs, node):
            vv = self._v
            site = getattr(node, "lineno", None)
            gb = kwargs.get("group_by", args[2] if len(args) > 2 else None)
            I.oblige(st, f"C13.order_of_this_frame_is_validated_for_exactly_these_keys@L{site}",
                     z3.BoolVal(self._is_df(st, args[1], vv) and isinstance(gb, Ref) and gb.oid == vv["gb"].oid
                                and kwargs.get("page_by") is None and kwargs.get("subline_by") is None and len(args) <= 3), "post", site)
            st.ghost["trace"] = tuple(st.ghost.get("trace", ())) + ("validated",)
            if not I.decide(st, SORT_OK, "keys.contiguous"):
                raise SymRaise(ClassVal("ValueError", ValueError), st, "data is not sorted by the group_by keys", site)
            return None

        def single(I, st, args, kwargs, node):
            vv = self._v
            site = getattr(node, "lineno", None)
            col = args[2]
            I.oblige(st, f"C13.single_key_suppression_runs_on_a_copy_of_the_frame_with_the_only_key@L{site}",
                     And(z3.BoolVal(self._is_df(st, args[1], vv) and vv["n"] == 1), to_z3(norm_str(col)) == to_z3(vv["keys"][0]) if vv["keys"] else z3.BoolVal(False)), "post", site)
            I.oblige(st, f"C13.suppression_only_after_the_order_was_validated@L{site}", z3.BoolVal(st.ghost.get("trace", ()) == ("validated",)), "post", site)
            res = fresh_df(st, "suppressed")
            st.ghost["trace"] = tuple(st.ghost.get("trace", ())) + (("single", res.oid),)
            return res

        def hier(I, st, args, kwargs, node):
            vv = self._v
            site = getattr(node, "lineno", None)
            gb = args[2]
            I.oblige(st, f"C13.hierarchical_suppression_runs_on_a_copy_of_the_frame_with_all_the_keys@L{site}",
                     z3.BoolVal(self._is_df(st, args[1], vv) and (vv["n"] or 0) >= 2 and isinstance(gb, Ref) and gb.oid == vv["gb"].oid), "post", site)
            I.oblige(st, f"C13.suppression_only_after_the_order_was_validated@L{site}", z3.BoolVal(st.ghost.get("trace", ()) == ("validated",)), "post", site)
            res = fresh_df(st, "suppressed")
            st.ghost["trace"] = tuple(st.ghost.get("trace", ())) + (("hier", res.oid),)
            return res
        return {"GroupingService.validate_data_sorting": validate, "GroupingService._suppress_single_column": single,
                "GroupingService._suppress_hierarchical_columns": hier}

    def _all_keys_are_columns(self, c):
        d = c.v["d"]
        j = z3.Int("j")
        return And(*[Exists([j], And(0 <= j, j < d.w, d.colname(j) == to_z3(k))) for k in c.v["keys"]]) if c.v["keys"] else z3.BoolVal(True)

    @property
    def raises(self):
        def r(c, out):
            if not c.v["keys"]:
                return {"never_without_keys": z3.BoolVal(False)}
            return {"only_for_a_key_that_is_no_column_or_keys_that_are_not_contiguous": And(c.v["d"].n > 0, Or(Not(self._all_keys_are_columns(c)), Not(SORT_OK)))}
        return {"ValueError": r}

    def setup_loops(self, c):
        self._v = c.v
        self.loops = {}

    def ensures(self, c, out):
        v = c.v
        tr = tuple(out.state.ghost.get("trace", ()))
        same = isinstance(out.value, Ref) and out.value.oid == v["df"].oid
        if not v["keys"]:
            return {"C13.without_keys_the_frame_is_returned_as_it_is": z3.BoolVal(same and tr == ())}
        kind = "single" if v["n"] == 1 else "hier"
        suppressed = len(tr) == 2 and tr[0] == "validated" and isinstance(tr[1], tuple) and tr[1][0] == kind and isinstance(out.value, Ref) and out.value.oid == tr[1][1]
        untouched = same and tr == ()
        return {"C13.result_is_the_suppressors_output_for_these_keys_or_the_empty_frame_itself": Or(And(v["d"].n == 0, z3.BoolVal(untouched)), And(v["d"].n > 0, z3.BoolVal(suppressed))),
                "C13.accepted_only_with_known_contiguous_keys": Implies(v["d"].n > 0, And(self._all_keys_are_columns(c), SORT_OK))}


UNITS.append(EnhanceGroupBy())
