"""The glue between the emitters and the colour service (C12): row.py::Utils._get_color_index (what a \\cf / \\cb / \\brdrcf reference resolves
to), services/encoding_service.py::RTFEncodingService.encode_color_table and rtf/syntax.py::RTFSyntaxGenerator.generate_color_table (which list
the colour table is generated from).  The service functions themselves are units GetRtfColorIndex / GenerateColorTable (contracts/colors.py);
here they are used through summaries that record their arguments."""
import z3
from z3 import And, Or, Not, Implies, If, IntVal

from pyvc.contract import Contract
from pyvc import types as T
from pyvc.values import RecObj, ListObj, Ref, Opt, ClassVal, StrSort, lit, norm_str, to_z3, fresh_name
from pyvc.state import SymRaise
from pyvc.libmodels.strings import StrModel

IDX = z3.Function("service_colour_index", StrSort, z3.IntSort())           # get_rtf_color_index(colour, <the given list / document context>)
KNOWN = z3.Function("colour_name_is_known", StrSort, z3.BoolSort())


def _same(a, b):
    a = a.payload if isinstance(a, Opt) else a
    return (a is None and b is None) or (isinstance(a, Ref) and isinstance(b, Ref) and a.oid == b.oid)


class UtilColorIndex(Contract):
    """Utils._get_color_index(color, used_colors): 0 for '' / None / 'black'; otherwise exactly what the colour service answers for this
    colour and this used_colors argument (None = the document context).  Code-derived: a name the service refuses resolves to 0."""
    target = "row.py::Utils._get_color_index"
    serves = ["C12"]
    models = [StrModel()]
    variants = ["document_context", "explicit_list", "no_colour"]

    def setup(self, c):
        if c.variant == "no_colour":
            c.bind("color", None)
        else:
            c.param("color", T.Str)
        used = c.fresh("used_colors", T.List(T.Str)) if c.variant == "explicit_list" else None
        c.bind("used_colors", used)
        c.v.update(used=used)
        c.ghost("asked", 0)
        self._v = c.v

    @property
    def handlers(self):
        def h_index(I, st, args, kwargs, node):
            site = getattr(node, "lineno", None)
            col = args[0] if args else kwargs.get("color_name")
            used = args[1] if len(args) > 1 else kwargs.get("used_colors")
            I.oblige(st, f"C12.the_service_is_asked_for_this_colour_with_this_colour_list@L{site}",
                     And(to_z3(norm_str(col)) == to_z3(self._v["color"]), z3.BoolVal(_same(used, self._v["used"]))), "post", site)
            st.ghost["asked"] = st.ghost.get("asked", 0) + 1
            if not I.decide(st, KNOWN(to_z3(norm_str(col))), "colour.known"):
                exc = I.lookup(st, "ColorValidationError")
                raise SymRaise(exc if isinstance(exc, ClassVal) else ClassVal("ColorValidationError", ValueError), st, "unknown colour", site)
            return IDX(to_z3(norm_str(col)))
        return {"color_service.get_rtf_color_index": h_index}

    def ensures(self, c, out):
        if c.variant == "no_colour":
            return {"C12.no_colour_is_index_0": to_z3(out.value) == 0}
        col = c.v["color"]
        default = Or(col == lit(""), col == lit("black"))
        return {"C12.default_colours_are_index_0_every_other_colour_is_the_services_index": to_z3(out.value) == If(default, 0, If(KNOWN(col), IDX(col), 0)),
                "C12.the_service_is_asked_at_most_once": z3.BoolVal(out.state.ghost.get("asked", 0) <= 1)}


COLLECT = z3.Function("collected_colours_of", z3.IntSort(), z3.IntSort())       # document id -> id of the collected list
TABLE = z3.Function("colour_table_of_list", z3.IntSort(), StrSort)


class EncodeColorTable(Contract):
    """encode_color_table(document): the colour table generated from collect_document_colors(document) - the list the document context
    (UnifiedRTFEncoder.encode -> set_document_context) resolves indices against; with an explicit used_colors list, from that list."""
    target = "services/encoding_service.py::RTFEncodingService.encode_color_table"
    serves = ["C12"]
    models = [StrModel()]
    variants = ["document", "explicit_list", "nothing"]

    def setup(self, c):
        cls = c.cls("rtflite.services.encoding_service", "RTFEncodingService")
        syn = c.alloc(RecObj("RTFSyntaxGenerator", {}, fresh=False))
        c.bind("self", c.alloc(RecObj("RTFEncodingService", {"syntax": syn}, pyclass=cls, fresh=False)))
        doc = c.alloc(RecObj("RTFDocument", {}, fresh=False)) if c.variant == "document" else None
        used = c.fresh("used_colors", T.List(T.Str)) if c.variant == "explicit_list" else None
        c.bind("document", doc)
        c.bind("used_colors", used)
        c.v.update(doc=doc, used=used)
        c.ghost("collected", None)
        c.ghost("generated_from", "never")
        self._v = c.v

    @property
    def handlers(self):
        def h_collect(I, st, args, kwargs, node):
            site = getattr(node, "lineno", None)
            I.oblige(st, f"C12.colours_are_collected_from_this_document@L{site}", z3.BoolVal(_same(args[0], self._v["doc"]) and self._v["doc"] is not None), "post", site)
            lst = st.alloc(ListObj(length=z3.Int(fresh_name("n_colours")), get=lambda k: z3.Const(fresh_name("colour"), StrSort), fresh=True))
            st.ghost["collected"] = lst
            return lst

        def h_generate(I, st, args, kwargs, node):
            a = args[0] if args else kwargs.get("used_colors")
            a = a.payload if isinstance(a, Opt) else a
            st.ghost["generated_from"] = a
            return z3.Const("generated_colour_table", StrSort)
        return {"color_service.collect_document_colors": h_collect, "self.syntax.generate_color_table": h_generate}

    def ensures(self, c, out):
        st = out.state
        src = st.ghost.get("generated_from", "never")
        want = st.ghost.get("collected") if c.variant == "document" else c.v["used"]
        ok = (src is None and want is None) or (isinstance(src, Ref) and isinstance(want, Ref) and src.oid == want.oid)
        return {"C12.the_table_is_generated_from_the_collected_colours_of_this_document_or_the_given_list": z3.BoolVal(bool(ok)),
                "returns_the_generated_table": to_z3(norm_str(out.value)) == z3.Const("generated_colour_table", StrSort)}


class SyntaxGenerateColorTable(Contract):
    """RTFSyntaxGenerator.generate_color_table(used_colors) = color_service.generate_rtf_color_table(used_colors), same list."""
    target = "rtf/syntax.py::RTFSyntaxGenerator.generate_color_table"
    serves = ["C12"]
    models = [StrModel()]
    variants = ["list", "none"]

    def setup(self, c):
        used = c.fresh("used_colors", T.List(T.Str)) if c.variant == "list" else None
        c.bind("used_colors", used)
        c.v.update(used=used)
        c.ghost("arg", "never")
        self._v = c.v

    @property
    def handlers(self):
        def h_gen(I, st, args, kwargs, node):
            a = args[0] if args else kwargs.get("used_colors")
            st.ghost["arg"] = a.payload if isinstance(a, Opt) else a
            return z3.Const("service_colour_table", StrSort)
        return {"color_service.generate_rtf_color_table": h_gen}

    def ensures(self, c, out):
        a = out.state.ghost.get("arg", "never")
        return {"C12.the_services_table_for_exactly_this_list": And(z3.BoolVal(a != "never" and _same(a, c.v["used"])),
                                                                    to_z3(norm_str(out.value)) == z3.Const("service_colour_table", StrSort))}


UNITS = [UtilColorIndex(), EncodeColorTable(), SyntaxGenerateColorTable()]
