"""Footnote / source emitters: services/encoding_service.py::RTFEncodingService.encode_footnote / encode_source
(C07 closing-border override, C08 right edge of the table-rendered component, C14 no store into the caller's component, C01)."""
import z3
from z3 import And, Or, Not, Implies, ForAll, If, IntVal

from pyvc.contract import Contract
from pyvc import types as T
from pyvc.values import ListObj, RecObj, Ref, Opt, Rope, Tok, lit, to_z3, norm_str, StrSort, ValSort, fresh_name
from pyvc.state import OutOfSubset
from pyvc.seqs import as_symlist, seq_view
from pyvc.libmodels.polars_model import PolarsModel, DfObj
from pyvc.libmodels.strings import StrModel

from contracts.headers import STRVAL

NOTEROWS = z3.Function("rtf_note_rows", z3.IntSort(), StrSort)
NOTEPARS = z3.Function("rtf_note_paragraphs", z3.IntSort(), StrSort)


def h_model_copy(I, st, args, kwargs, node, recv=None):
    raise OutOfSubset("model_copy handler needs the receiver")


def _note_contract(fname, param):
    class _N(Contract):
        __doc__ = (f"RTFEncodingService.{fname}(config, page_number, page_col_width, border_style): [] without a component; a non-empty "
                   "border_style is applied as border_bottom [[style]] on a COPY (the caller's component keeps its own value: C14) and that copy is "
                   "what gets encoded (C07); as a table the single cell spans the whole table width page_col_width (C08); as a paragraph the "
                   "text is encoded as paragraphs.  Precondition for the table form: page_col_width is given and the component has one relative width.")
        target = f"services/encoding_service.py::RTFEncodingService.{fname}"
        serves = ["C07", "C08", "C14", "C01"]
        models = [PolarsModel(), StrModel()]
        variants = ["none", "table.border", "table.noborder", "par.border", "par.noborder", "par.notext"]

        def setup(self, c):
            cls = c.cls("rtflite.services.encoding_service", "RTFEncodingService")
            c.bind("self", c.alloc(RecObj("RTFEncodingService", {}, pyclass=cls, fresh=False)))
            c.bind("page_number", c.fresh("page_number", T.Int))
            pcw = c.fresh("page_col_width", T.Real)
            c.requires("table_width_positive", pcw > 0)
            c.bind("page_col_width", pcw)
            c.v.update(pcw=pcw)
            if c.variant == "none":
                c.bind(param, None)
                c.bind("border_style", None)
                return
            kind, b = c.variant.split(".")
            bs = None
            if b == "border":
                bs = c.fresh("border_style", T.Str)
                c.requires("border_style_nonempty", bs != lit(""))
            c.bind("border_style", bs)
            text = None if b == "notext" else c.fresh("text", T.Str)
            rel = c.fresh("col_rel_width", T.List(T.Real))
            c.requires("component_has_one_relative_width", c.obj(rel).length == 1)
            own_bb = c.fresh("own_border_bottom", T.Str)
            comp = c.alloc(RecObj("RTFTableTextComponent", {"text": text, "as_table": kind == "table", "col_rel_width": rel, "border_bottom": own_bb},
                                  pyclass=c.cls("rtflite.input", "RTFTableTextComponent"), fresh=False, origin="CALLER"))
            c.bind(param, comp)
            c.v.update(comp=comp, bs=bs, text=text, rel=rel, own_bb=own_bb, kind=kind)
            c.ghost("encoded_attrs", None)

        @property
        def handlers(self):
            def model_copy(I, st, args, kwargs, node):
                I.ctx.assume_lib("pydantic: model_copy() returns a new model object with the same field values (shallow)")
                src = st.obj(I.lookup(st, "rtf_attrs"))
                return st.alloc(RecObj(src.cls, dict(src.fields), pyclass=src.pyclass, fresh=True, origin="FRESH"))

            def one_cell_frame(I, st, args, kwargs, node):
                I.ctx.assume_lib("polars: pl.DataFrame([[x]]) is the 1 x 1 frame whose cell is x")
                outer = st.obj(args[0])
                if not (isinstance(outer, ListObj) and outer.items is not None and len(outer.items) == 1):
                    raise OutOfSubset("pl.DataFrame of an unexpected shape")
                inner = st.obj(outer.items[0])
                if not (isinstance(inner, ListObj) and inner.items is not None and len(inner.items) == 1):
                    raise OutOfSubset("pl.DataFrame of an unexpected shape")
                x = norm_str(inner.items[0])
                cell = STRVAL(to_z3(x)) if x is not None else z3.Const(fresh_name("nullcell"), ValSort)
                d = DfObj(IntVal(1), IntVal(1), lambda r, c2, cell=cell: cell, lambda j: lit("column_0"))
                d.note_text = x
                return st.alloc(d)
            return {"rtf_attrs.model_copy": model_copy, "pl.DataFrame": one_cell_frame}

        def _check_attrs(self, I, st, attrs_ref, site):
            vv = self._v
            a = st.obj(attrs_ref)
            bb = a.fields.get("border_bottom")
            if vv.get("bs") is not None:
                ok = False
                if isinstance(bb, Ref):
                    o = st.obj(bb)
                    if isinstance(o, ListObj) and o.items is not None and len(o.items) == 1 and isinstance(o.items[0], Ref):
                        o2 = st.obj(o.items[0])
                        if isinstance(o2, ListObj) and o2.items is not None and len(o2.items) == 1:
                            ok = to_z3(norm_str(o2.items[0])) == to_z3(vv["bs"])
                I.oblige(st, f"C07.closing_border_override_is_what_gets_encoded@L{site}", ok if z3.is_expr(ok) else z3.BoolVal(bool(ok)), "post", site)
                I.oblige(st, f"C14.override_is_applied_to_a_copy@L{site}", z3.BoolVal(attrs_ref.oid != vv["comp"].oid and bool(a.fresh)), "post", site)
            else:
                I.oblige(st, f"C07.without_override_the_components_own_border_is_encoded@L{site}",
                         z3.BoolVal(bb is vv["own_bb"] or (z3.is_expr(bb) and bb.eq(to_z3(vv["own_bb"])))), "post", site)
            st.ghost["encoded_attrs"] = attrs_ref

        @property
        def summaries(self):
            def col_widths(I, st, args, kwargs, node):
                vv = self._v
                site = getattr(node, "lineno", None)
                n, g = as_symlist(st, st.obj(args[0]))
                I.oblige(st, f"C08.note_is_laid_out_on_the_table_width@L{site}", to_z3(args[1]) == to_z3(vv["pcw"]), "post", site)
                I.oblige(st, f"C08.note_cell_spans_the_whole_width@L{site}", to_z3(n) == 1, "post", site)
                return st.alloc(ListObj(length=to_z3(n), get=lambda j: to_z3(args[1]), fresh=True))       # ColWidths: last boundary == total; n == 1

            def encode(I, st, args, kwargs, node):
                vv = self._v
                site = getattr(node, "lineno", None)
                self._check_attrs(I, st, args[0], site)
                d = st.obj(args[1])
                I.oblige(st, f"C06.note_cell_is_the_components_text@L{site}", z3.BoolVal(getattr(d, "note_text", None) is not None and vv["text"] is not None
                                                                                         and to_z3(d.note_text).eq(to_z3(vv["text"]))), "post", site)
                I.oblige(st, f"C01.table_form_gets_its_boundaries@L{site}", z3.BoolVal(len(args) > 2 and isinstance(args[2], Ref)), "post", site)
                return st.alloc(ListObj(length=IntVal(1), get=lambda k: NOTEROWS(IntVal(0)), fresh=True))

            def encode_text(I, st, args, kwargs, node):
                vv = self._v
                site = getattr(node, "lineno", None)
                st.ghost["encoded_attrs"] = args[0]           # a paragraph has no cell borders: the override is irrelevant for this form
                m = norm_str(kwargs.get("method", args[2] if len(args) > 2 else None))
                I.oblige(st, f"C01.paragraph_form_uses_paragraph_method@L{site}", z3.BoolVal(m == "paragraph"), "post", site)
                tl = st.obj(args[1])
                from pyvc.seqs import safe_view
                n, g = safe_view(st, tl, lit(""))
                if vv["text"] is not None:
                    I.oblige(st, f"C06.paragraphs_are_the_components_text@L{site}",
                             If(to_z3(vv["text"]) == lit(""), to_z3(n) == 0, And(to_z3(n) == 1, to_z3(norm_str(g(IntVal(0)))) == to_z3(vv["text"]))), "post", site)
                else:
                    I.oblige(st, f"C06.no_text_no_paragraphs@L{site}", to_z3(n) == 0, "post", site)
                return st.alloc(ListObj(length=to_z3(n), get=lambda k: NOTEPARS(to_z3(k)), fresh=True))
            return {"Utils._col_widths": col_widths, "TableAttributes._encode": encode, "TextAttributes._encode_text": encode_text}

        def setup_loops(self, c):
            self._v = c.v

        def ensures(self, c, out):
            n, g = seq_view(out.state, out.value)
            if c.variant == "none":
                return {"no_component_no_output": to_z3(n) == 0}
            comp = out.state.obj(c.v["comp"])
            bb = comp.fields.get("border_bottom")
            cl = {"C14.callers_component_keeps_its_own_border": z3.BoolVal(bb is c.v["own_bb"] or (z3.is_expr(bb) and bb.eq(to_z3(c.v["own_bb"])))),
                  "exactly_one_encoder_call": z3.BoolVal(out.state.ghost.get("encoded_attrs") is not None)}
            return cl
    _N.__name__ = "Encode" + fname.replace("encode_", "").capitalize()
    return _N


EncodeFootnote = _note_contract("encode_footnote", "footnote_config")
EncodeSource = _note_contract("encode_source", "source_config")
UNITS = [EncodeFootnote(), EncodeSource()]
