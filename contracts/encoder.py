"""Contracts for encoding/unified_encoder.py::UnifiedRTFEncoder.encode - the colour-context protocol (C12 ctx, C14 F2/F3, C15)
and the single-section document skeleton (C01)."""
import z3
from z3 import And, Or, Not, Implies

from pyvc.contract import Contract
from pyvc import types as T
from pyvc.values import RecObj, ListObj, Ref, Opt, StrSort, Rope, lit, norm_str, rope_of, fresh_name, Unknown
from pyvc.libmodels.tables import BigTableModel
from pyvc.libmodels.strings import StrModel
from pyvc.libmodels.ctxvar import ContextVarModel
from pyvc.libmodels.fs import fault_point

PIPELINE = ["UnifiedRTFEncoder._encode_figure_only", "UnifiedRTFEncoder._encode_multi_section", "UnifiedRTFEncoder._encode_body_section"]
SERVICE = ["encode_document_start", "encode_font_table", "encode_color_table", "encode_page_header", "encode_page_footer",
           "encode_page_settings"]


def _ctx_now(I, st):
    cs = I.ctx.resolve_global(st, "rtflite.services.color_service", "color_service")
    return I.get_attr(st, cs, "_current_document_colors", None)


def _mk_opaque(name, kind):
    def h(I, st, args, kwargs, node):
        site = getattr(node, "lineno", None)
        ctx_now = _ctx_now(I, st)        # evaluate first: inlined property getters replace st.effects
        st.effects.append(("call", name, ctx_now, [a for a in args[1:]], site))
        fault_point(I, st, name, site)
        if kind == "list":
            return st.alloc(ListObj(items=[z3.Const(fresh_name("chunk." + name), StrSort)]))
        return z3.Const(fresh_name("str." + name.split(".")[-1]), StrSort)
    return h


def _collect(I, st, args, kwargs, node):
    doc = args[1]
    memo = st.ghost.setdefault("__collected__", {})
    key = doc.oid if isinstance(doc, Ref) else id(doc)
    if key not in memo:
        from pyvc.types import fresh_value
        memo[key] = fresh_value(st, T.List(T.Str), "collected_colors", fresh=True)
    st.effects.append(("collect", key))
    return memo[key]


class EncodeCtx(Contract):
    """UnifiedRTFEncoder.encode: every pipeline call runs with the colour context of THIS document, and the context is
    None again on every exit, normal or exceptional (faults injected at every pipeline / service call)."""
    target = "encoding/unified_encoder.py::UnifiedRTFEncoder.encode"
    serves = ["C12", "C14", "C15", "C01"]
    models = [BigTableModel(), StrModel(), ContextVarModel()]
    variants = ["single", "multi", "figure"]
    inject_faults = True
    max_paths = 20000

    @property
    def summaries(self):
        d = {n: _mk_opaque(n, "list" if n.endswith("_encode_body_section") else "str") for n in PIPELINE}
        for s in SERVICE:
            d["RTFEncodingService." + s] = _mk_opaque("RTFEncodingService." + s, "str")
        d["ColorService.collect_document_colors"] = _collect
        return d

    def setup(self, c):
        enc_cls = c.cls("rtflite.encoding.unified_encoder", "UnifiedRTFEncoder")
        es_cls = c.cls("rtflite.services.encoding_service", "RTFEncodingService")
        es = c.alloc(RecObj("RTFEncodingService", {}, pyclass=es_cls, fresh=False))
        c.bind("self", c.alloc(RecObj("UnifiedRTFEncoder", {"encoding_service": es}, pyclass=enc_cls, fresh=False)))
        if c.variant == "figure":
            df = None
        elif c.variant == "multi":
            df = c.alloc(ListObj(items=[Unknown("section df 0"), Unknown("section df 1")], fresh=False))
        else:
            df = c.alloc(RecObj("DataFrame", {}, fresh=False))
        fields = {"df": df}
        for f in ("rtf_body", "rtf_page_header", "rtf_page_footer", "rtf_page", "rtf_title", "rtf_figure"):
            fields[f] = c.alloc(RecObj(f, {}, fresh=False, origin="CALLER"))
        doc = c.alloc(RecObj("RTFDocument", fields, fresh=False, origin="CALLER"))
        c.bind("document", doc)
        # precondition: no encode in progress in this thread (context is None on entry)
        ctx0 = _ctx_now(c.I, c.st)
        c.v["ctx0_is_none"] = ctx0 is None

    def _exit_clauses(self, c, st, raised):
        cl = {"entry_context_none(harness)": z3.BoolVal(c.v["ctx0_is_none"])}
        ctx = _ctx_now(c.I, st)
        cl["context_cleared_on_exit"] = z3.BoolVal(ctx is None)
        doc = c.v["document"]
        want = st.ghost.get("__collected__", {}).get(doc.oid)
        calls = [e for e in st.effects if e[0] == "call"]
        ok_ctx = all(isinstance(e[2], Ref) and want is not None and e[2] == want for e in calls if e[1] in PIPELINE)
        cl["pipeline_runs_with_this_documents_context"] = z3.BoolVal(ok_ctx)
        return cl, calls

    @property
    def raises(self):
        return {"Exception": lambda c, out: self._exit_clauses(c, out.state, True)[0]}

    def ensures(self, c, out):
        cl, calls = self._exit_clauses(c, out.state, False)
        names = [e[1] for e in calls]
        # C18 / C01: a failure of any step surfaces as an exception of rtf_encode ("if encoding fails ... raise"); a string is returned only
        # when no step failed
        cl["C18.a_result_is_returned_only_when_no_step_of_the_pipeline_failed"] = z3.BoolVal(not any(e[0] == "fault" for e in out.state.effects))
        cl["exactly_one_pipeline_call"] = z3.BoolVal(sum(1 for n in names if n in PIPELINE) == 1)
        want = {"single": "UnifiedRTFEncoder._encode_body_section", "multi": "UnifiedRTFEncoder._encode_multi_section",
                "figure": "UnifiedRTFEncoder._encode_figure_only"}[c.variant]
        cl["dispatch_by_document_kind"] = z3.BoolVal(want in names)
        if c.variant == "single":
            r = rope_of(out.value)
            ps = r.pieces
            starts = [e for e in out.state.effects if e[0] == "call" and e[1].endswith("encode_document_start")]
            cl["skeleton_opens_with_document_start"] = z3.BoolVal(len(starts) == 1 and len(ps) > 0 and z3.is_expr(ps[0]))
            cl["skeleton_closes_with_single_brace_last"] = z3.BoolVal(len(ps) > 0 and isinstance(ps[-1], str) and ps[-1].endswith("\n}") and ps[-1].count("}") == 1)
            order = [n.split(".")[-1] for n in names if n.startswith("RTFEncodingService.")]
            cl["prolog_order"] = z3.BoolVal(order == SERVICE)
            cl["page_header_and_footer_defined_once"] = z3.BoolVal(order.count("encode_page_header") == 1 and order.count("encode_page_footer") == 1)
        return cl


UNITS = [EncodeCtx()]


# ---- the public entry point: RTFDocument.rtf_encode -> RTFEncodingEngine.encode_document -> UnifiedRTFEncoder.encode ----------------
ENCODED = z3.Function("unified_encoder_result_for", z3.IntSort(), StrSort)        # document id -> what UnifiedRTFEncoder.encode returns


class RtfEncodeEntry(Contract):
    """RTFDocument.rtf_encode(): exactly the string the encoding engine returns for THIS document, from an engine created for this call
    (nothing is kept between calls: C14 / C15; write_rtf stores this string: C18)."""
    target = "encode.py::RTFDocument.rtf_encode"
    serves = ["C14", "C15", "C18"]
    models = [StrModel()]

    def setup(self, c):
        me = c.alloc(RecObj("RTFDocument", {}, pyclass=c.cls("rtflite.encode", "RTFDocument"), fresh=False, origin="CALLER"))
        c.bind("self", me)
        c.v.update(me=me)
        c.ghost("engines", 0)
        c.ghost("encoded", ())
        self._v = c.v

    @property
    def handlers(self):
        def new_engine(I, st, cv, args, kwargs, node):
            st.ghost["engines"] = st.ghost.get("engines", 0) + 1
            return st.alloc(RecObj("RTFEncodingEngine", {}, pyclass=cv.pyclass, fresh=True))
        return {"new:RTFEncodingEngine": new_engine}

    @property
    def summaries(self):
        def encode_document(I, st, args, kwargs, node):
            site = getattr(node, "lineno", None)
            doc = args[1]
            I.oblige(st, f"C14.the_engine_encodes_this_document@L{site}", z3.BoolVal(isinstance(doc, Ref) and doc.oid == self._v["me"].oid), "post", site)
            I.oblige(st, f"C15.the_engine_was_created_for_this_call@L{site}", z3.BoolVal(isinstance(args[0], Ref) and st.obj(args[0]).fresh), "post", site)
            st.ghost["encoded"] = tuple(st.ghost.get("encoded", ())) + (doc.oid if isinstance(doc, Ref) else None,)
            return ENCODED(z3.IntVal(doc.oid if isinstance(doc, Ref) else -1))
        return {"RTFEncodingEngine.encode_document": encode_document}

    def ensures(self, c, out):
        me = c.v["me"]
        return {"C18.returns_exactly_the_engines_string_for_this_document": to_z3(norm_str(out.value)) == ENCODED(z3.IntVal(me.oid)),
                "C14.one_encode_per_call": z3.BoolVal(out.state.ghost.get("encoded", ()) == (me.oid,)),
                "C14.the_document_object_is_not_written": z3.BoolVal(out.state.obj(me).fields == {})}


class EngineEncodeDocument(Contract):
    """RTFEncodingEngine.encode_document(document) = self._encoder.encode(document), unchanged."""
    target = "encoding/engine.py::RTFEncodingEngine.encode_document"
    serves = ["C14", "C15"]
    models = [StrModel()]

    def setup(self, c):
        enc = c.alloc(RecObj("UnifiedRTFEncoder", {}, pyclass=c.cls("rtflite.encoding.unified_encoder", "UnifiedRTFEncoder"), fresh=False))
        c.bind("self", c.alloc(RecObj("RTFEncodingEngine", {"_encoder": enc}, pyclass=c.cls("rtflite.encoding.engine", "RTFEncodingEngine"), fresh=False)))
        doc = c.alloc(RecObj("RTFDocument", {}, fresh=False, origin="CALLER"))
        c.bind("document", doc)
        c.v.update(doc=doc, enc=enc)
        c.ghost("calls", ())
        self._v = c.v

    @property
    def summaries(self):
        def encode(I, st, args, kwargs, node):
            doc = args[1]
            st.ghost["calls"] = tuple(st.ghost.get("calls", ())) + ((args[0].oid if isinstance(args[0], Ref) else None, doc.oid if isinstance(doc, Ref) else None),)
            return ENCODED(z3.IntVal(doc.oid if isinstance(doc, Ref) else -1))
        return {"UnifiedRTFEncoder.encode": encode}

    def ensures(self, c, out):
        return {"C14.the_engines_own_encoder_encodes_this_document_once": z3.BoolVal(out.state.ghost.get("calls", ()) == ((c.v["enc"].oid, c.v["doc"].oid),)),
                "returns_the_encoders_string": to_z3(norm_str(out.value)) == ENCODED(z3.IntVal(c.v["doc"].oid))}


from pyvc.values import to_z3
ENTRY_UNITS = [RtfEncodeEntry(), EngineEncodeDocument()]
